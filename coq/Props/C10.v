(* C10 - translation, rotation and scaling act on the shape as on its points.
   "Translating, rotating about a coordinate axis through the shape's start point, or uniformly scaling any curve,
    surface, volume or container moves every evaluated point exactly as the same map applied to the original point,
    for rational shapes too (weights unchanged).  Without the in-place option the input is left unchanged and a new
    object is returned; with it the same object is updated."
   This file only states the theorems; proofs are in Proofs/LinComb.v, HomogR.v, HullR.v, TransformR.v,
   TransformR2.v (numeric part) and Proofs/StoreR.v (objects, copies, in-place updates). *)
From Coq Require Import List Reals Lra Lia Arith Bool QArith Qreals.
From NV Require Import Scalar.Ops Model.Common Model.Basis Model.Knots Model.Eval Model.Homog Model.Hull Model.Transform
  Proofs.BasisR Proofs.LinComb Proofs.HomogR Proofs.HullR Proofs.HullR2 Proofs.TransformR Proofs.TransformR2 Proofs.StoreR Transfer.BasisT Transfer.TransformT.
Import ListNotations.
Open Scope R_scope.

(* [G] evaluation commutes with EVERY affine map of the control points (x |-> A x + b in matrix form), curves:
   all degrees, all sorted knot vectors, all parameters of the closed domain, all dimensions dim -> dim' *)
Theorem C10_eval_commutes_with_affine_curve : forall (dim : nat) (A : list (list R)) (b : list R) (p : nat) (U : list R) (P : list (list R)) (u : R),
  length b = length A -> (forall row, In row A -> length row = dim) ->
  dir_ok p U (length P) u -> Forall (fun q => length q = dim) P ->
  curve_point Rops (length A) p U (map (aff A b) P) u = aff A b (curve_point Rops dim p U P u).
Proof. intros dim A b p U P u Hb Hrows. apply curve_affine. apply matrix_affine; assumption. Qed.
Print Assumptions C10_eval_commutes_with_affine_curve.

(* [G] an instance about the EXECUTABLE rational model (what the correspondence check runs), by parametricity: translation *)
Theorem C10_translate_curve_Q : forall dim p (U : list Q) (P : list (list Q)) (u : Q) (vec : list Q),
  sortedQ U -> (p < length P)%nat -> (length P + p < length U)%nat -> Forall (fun q => length q = dim) P -> length vec = dim ->
  (kn Qops U p <= u)%Q -> (u <= kn Qops U (length P))%Q -> (kn Qops U (length P - 1) < kn Qops U (length P))%Q ->
  Forall2 Qeq (curve_point Qops dim p U (map (tr_point Qops vec) P) u) (tr_point Qops vec (curve_point Qops dim p U P u)).
Proof. exact curve_translate_Q. Qed.
Print Assumptions C10_translate_curve_Q.

(* [G] the same for maps given component-wise by linear functionals (affine_map), surfaces and volumes *)
Theorem C10_eval_commutes_with_affine_surface : forall (dim dim' : nat) (f : list R -> list R) pu pv su sv Uu Uv (P : list (list R)) u v,
  affine_map dim dim' f -> dir_ok pu Uu su u -> dir_ok pv Uv sv v -> length P = (su * sv)%nat -> Forall (fun q => length q = dim) P ->
  surface_point Rops dim' pu pv Uu Uv su sv (map f P) u v = f (surface_point Rops dim pu pv Uu Uv su sv P u v).
Proof. intros dim dim' f pu pv su sv Uu Uv P u v Hf. exact (surface_affine dim dim' f Hf pu pv su sv Uu Uv P u v). Qed.
Print Assumptions C10_eval_commutes_with_affine_surface.

Theorem C10_eval_commutes_with_affine_volume : forall (dim dim' : nat) (f : list R -> list R) pu pv pw su sv sw Uu Uv Uw (P : list (list R)) u v w,
  affine_map dim dim' f -> dir_ok pu Uu su u -> dir_ok pv Uv sv v -> dir_ok pw Uw sw w ->
  length P = (su * sv * sw)%nat -> Forall (fun q => length q = dim) P ->
  volume_point Rops dim' pu pv pw Uu Uv Uw su sv sw (map f P) u v w = f (volume_point Rops dim pu pv pw Uu Uv Uw su sv sw P u v w).
Proof. intros dim dim' f pu pv pw su sv sw Uu Uv Uw P u v w Hf. exact (volume_affine dim dim' f Hf pu pv pw su sv sw Uu Uv Uw P u v w). Qed.
Print Assumptions C10_eval_commutes_with_affine_volume.

(* [G] rational curves: map the unweighted control points, keep the weights (positive), evaluate homogeneously, project *)
Theorem C10_eval_commutes_with_affine_rational_curve : forall (dim dim' : nat) (f : list R -> list R) (P : list (list R)) (W : list R) p U u,
  affine_map dim dim' f -> length W = length P -> Forall (fun q => length q = dim) P -> Forall (fun w => 0 < w) W ->
  dir_ok p U (length P) u ->
  project Rops (curve_point Rops (S dim') p U (hom_combine Rops (map f P) W) u) =
  f (project Rops (curve_point Rops (S dim) p U (hom_combine Rops P W) u)).
Proof. intros dim dim' f P W p U u Hf HW HP Wp. exact (rational_curve_affine dim dim' f P W Hf HW HP Wp p U u). Qed.
Print Assumptions C10_eval_commutes_with_affine_rational_curve.

(* [G] all kinds at once (curve / surface / volume, rational or not) on the shape records of the model: applying f through
   the `ctrlpts` property (unweighted view, weights unchanged) maps every evaluated point by f *)
Theorem C10_shape_eval_commutes_with_affine : forall (dim : nat) (f : list R -> list R) (sh : shape R) (prm : list R),
  affine_map dim dim f -> pts_ok dim sh -> dirs_ok sh prm ->
  sh_eval Rops (on_ctrlpts Rops f sh) prm = res_map f (sh_eval Rops sh prm).
Proof. exact sh_eval_on_ctrlpts. Qed.
Print Assumptions C10_shape_eval_commutes_with_affine.

(* [G] "weights unchanged": only the unweighted control points change; degrees, knot vectors, sizes, weights stay *)
Theorem C10_weights_unchanged : forall (dim : nat) (f : list R -> list R) (sh : shape R), affine_map dim dim f -> pts_ok dim sh ->
  let sh' := on_ctrlpts Rops f sh in
  sh_rational sh' = sh_rational sh /\ sh_deg sh' = sh_deg sh /\ sh_kv sh' = sh_kv sh /\ sh_size sh' = sh_size sh /\
  (sh_rational sh = true -> hom_weights Rops (sh_pts sh') = hom_weights Rops (sh_pts sh) /\
                            hom_unweight Rops (sh_pts sh') = map f (hom_unweight Rops (sh_pts sh))) /\
  (sh_rational sh = false -> sh_pts sh' = map f (sh_pts sh)).
Proof. exact on_ctrlpts_keeps. Qed.
Print Assumptions C10_weights_unchanged.

(* [G] the point maps of the three operations, exactly as written in operations.py, are affine maps *)
Theorem C10_translate_scale_rotate_are_affine : forall (dim : nat),
  (forall vec, length vec = dim -> affine_map dim dim (tr_point Rops vec)) /\
  (forall m, affine_map dim dim (sc_point Rops m)) /\
  (forall axis c s, (axis <= 2)%nat -> ((axis = 2 /\ 2 <= dim) \/ 3 <= dim)%nat -> affine_map dim dim (rot_axis Rops axis c s)).
Proof. intros dim. split; [exact (tr_point_affine dim)|]. split; [exact (sc_point_affine dim)|]. intros. apply rot_axis_affine; assumption. Qed.
Print Assumptions C10_translate_scale_rotate_are_affine.

(* [G] operations.translate on a single shape (one element) or a container (its elements): element by element, every
   evaluated point is translated by vec *)
Theorem C10_translate : forall (dim : nat) (vec : list R) (elems : list (shape R)) (prms : list (list R)) (out : list (shape R)),
  elems_ok dim elems prms -> translate_elems Rops vec elems = Ok out ->
  out = map (on_ctrlpts Rops (tr_point Rops vec)) elems /\
  Forall2 (fun shp prm => sh_eval Rops (fst shp) prm = res_map (tr_point Rops vec) (sh_eval Rops (snd shp) prm)) (combine out elems) prms.
Proof. exact translate_elems_spec. Qed.
Print Assumptions C10_translate.

Theorem C10_scale : forall (dim : nat) (m : R) (elems : list (shape R)) (prms : list (list R)) (out : list (shape R)),
  elems_ok dim elems prms -> scale_elems Rops m elems = Ok out ->
  out = map (on_ctrlpts Rops (sc_point Rops m)) elems /\
  Forall2 (fun shp prm => sh_eval Rops (fst shp) prm = res_map (sc_point Rops m) (sh_eval Rops (snd shp) prm)) (combine out elems) prms.
Proof. exact scale_elems_spec. Qed.
Print Assumptions C10_scale.

(* [G] operations.rotate: every evaluated point of every element x is moved to  o + R (x - o)  where o is the start point
   of the FIRST element and R the rotation matrix about the chosen axis as written in the code (c = cos, s = sin) *)
Theorem C10_rotate : forall (dim axis : nat) (c s : R) (elems : list (shape R)) (prms : list (list R)) (out : list (shape R)),
  elems_ok dim elems prms -> (2 <= dim)%nat -> (dim = 2 \/ axis <= 2)%nat ->
  (forall e0 rest, elems = e0 :: rest -> dirs_ok e0 (sh_start Rops e0)) ->
  rotate_elems Rops axis c s elems = Ok out ->
  exists e0 rest origin ax, elems = e0 :: rest /\ ax = (if Nat.eqb dim 2 then 2 else axis)%nat /\
    sh_eval Rops e0 (sh_start Rops e0) = Ok origin /\ length origin = dim /\
    Forall2 (fun shp prm => sh_eval Rops (fst shp) prm =
        res_map (fun x => tr_point Rops (back_origin Rops origin) (rot_axis Rops ax c s (tr_point Rops (neg_origin Rops origin) x))) (sh_eval Rops (snd shp) prm))
       (combine out elems) prms.
Proof.
  intros dim axis c s elems prms out Hok Hd Hax Hstart Hr.
  destruct (rotate_elems_spec dim axis c s elems prms out Hok Hd Hax Hr) as [e0 [rest [origin [ax [E [Eax [Eo Hall]]]]]]].
  assert (Hlen : length origin = dim).
  { subst elems. inversion Hok as [|? prm0 ? ? [Hp0 _] _]; subst.
    apply (sh_eval_length dim e0 (sh_start Rops e0) origin Hp0 (Hstart e0 rest eq_refl) Eo). }
  exists e0, rest, origin, ax. repeat split; auto.
Qed.
Print Assumptions C10_rotate.

(* the side condition "length origin = dim" of C10_rotate holds whenever the first element is well formed at its start parameters *)
Theorem C10_rotate_origin_dimension : forall (dim : nat) (sh : shape R) (x : list R),
  pts_ok dim sh -> dirs_ok sh (sh_start Rops sh) -> sh_eval Rops sh (sh_start Rops sh) = Ok x -> length x = dim.
Proof. intros dim sh x Hp Hd. exact (sh_eval_length dim sh (sh_start Rops sh) x Hp Hd). Qed.
Print Assumptions C10_rotate_origin_dimension.

(* [F] (3-dimensional points, the three axes) the map of rotate fixes the origin point, and for c^2 + s^2 = 1 the matrix
   step preserves the distance to the origin and the coordinate along the axis: it is a rotation about that axis *)
Theorem C10_rotation_is_rotation_about_axis : forall (axis : nat) (c s x y z : R), (axis <= 2)%nat ->
  tr_point Rops (back_origin Rops [x;y;z]) (rot_axis Rops axis c s (tr_point Rops (neg_origin Rops [x;y;z]) [x;y;z])) = [x;y;z] /\
  (c * c + s * s = 1 ->
   let r := rot_axis Rops axis c s [x;y;z] in
   nth 0 r 0 * nth 0 r 0 + nth 1 r 0 * nth 1 r 0 + nth 2 r 0 * nth 2 r 0 = x * x + y * y + z * z /\ nth axis r 0 = nth axis [x;y;z] 0).
Proof. intros axis c s x y z Ha. split; [apply rotation_fixes_origin; exact Ha|intros Hcs; apply rotation_isometry; assumption]. Qed.
Print Assumptions C10_rotation_is_rotation_about_axis.

(* [G] object identity (provenance ids in an object store; f = the update of one element):
   inplace=True returns the same object, the same element objects, each updated once; nothing else changes *)
Theorem C10_inplace_updates_same_object : forall (S : Type) (f : S -> S) (h : store S) (i : nat) (h' : store S) (r : nat),
  apply_op true f h i = Some (h', r) -> NoDup (elems_of h i) -> elems_single h i ->
  r = i /\ elems_of h' i = elems_of h i /\ content h' i = map f (content h i) /\
  st_next h' = st_next h /\ (forall j, ~ In j (elems_of h i) -> lk h' j = lk h j).
Proof.
  intros S f h i h' r H Hnd Hs. destruct (inplace_content f h i h' r H Hnd Hs) as [E1 [E2 E3]].
  destruct (inplace_spec f h i h' r H Hnd) as [_ [E4 [E5 _]]]. auto.
Qed.
Print Assumptions C10_inplace_updates_same_object.

(* [G] inplace=False: a new object with new element objects is returned, it holds the transformed contents, and every
   object that existed before (the input and its elements included) is left unchanged *)
Theorem C10_copy_leaves_input_unchanged : forall (S : Type) (f : S -> S) (h : store S) (i : nat) (h' : store S) (r : nat),
  apply_op false f h i = Some (h', r) -> wf h -> (forall e, In e (elems_of h i) -> exists s, lk h e = Some (Single s)) ->
  (st_next h <= r)%nat /\ (forall e, In e (elems_of h' r) -> st_next h <= e)%nat /\
  (forall j, (j < st_next h)%nat -> lk h' j = lk h j) /\ content h' r = map f (content h i).
Proof. intros S f. exact (copy_spec f). Qed.
Print Assumptions C10_copy_leaves_input_unchanged.

(* ---- non-vacuity: a rational quadratic curve with an interior knot, a concrete translation; a store with a container ---- *)
Example C10_hypotheses_satisfiable :
  let U := [0;0;0;1/2;1;1;1] in let P := [[0;0];[1;2];[3;1];[4;0]] in let W := [1;2;1/2;1] in
  let sh := mkShape true [2%nat] [U] [4%nat] (hom_combine Rops P W) in
  pts_ok 2 sh /\ dirs_ok sh [1/2] /\ dirs_ok sh (sh_start Rops sh) /\ affine_map 2 2 (tr_point Rops [1;-3]) /\
  elems_ok 2 [sh] [[1/2]] /\ (exists out, translate_elems Rops [1;-3] [sh] = Ok out).
Proof.
  cbv zeta.
  assert (Hs : sortedR [0;0;0;1/2;1;1;1]).
  { apply sortedR_adjacent. intros i Hi. cbn in Hi. do 6 (destruct i as [|i]; [cbn; lra|]). lia. }
  assert (Hp : pts_ok 2 (mkShape true [2%nat] [[0;0;0;1/2;1;1;1]] [4%nat] (hom_combine Rops [[0;0];[1;2];[3;1];[4;0]] [1;2;1/2;1]))).
  { unfold pts_ok. cbn [sh_rational sh_pts]. exists [[0;0];[1;2];[3;1];[4;0]], [1;2;1/2;1].
    split; [reflexivity|]. split; [reflexivity|]. split; [repeat constructor|repeat constructor; lra]. }
  assert (Hd : forall u, 0 <= u <= 1 -> dirs_ok (mkShape true [2%nat] [[0;0;0;1/2;1;1;1]] [4%nat] (hom_combine Rops [[0;0];[1;2];[3;1];[4;0]] [1;2;1/2;1])) [u]).
  { intros u Hu. unfold dirs_ok. cbn [sh_deg sh_kv sh_size sh_pts]. split; [reflexivity|].
    unfold dir_ok. split; [exact Hs|]. split; [lia|]. split; [cbn; lia|]. unfold in_domain. cbn. lra. }
  split; [exact Hp|]. split; [apply Hd; lra|]. split; [apply Hd; cbn; lra|].
  split; [apply tr_point_affine; reflexivity|]. split; [constructor; [split; [exact Hp|apply Hd; lra]|constructor]|].
  eexists. unfold translate_elems. cbn [length sh_dimension sh_rational sh_pts Nat.eqb hom_combine combine map hom_point nth app Nat.pred]. reflexivity.
Qed.

Example C10_store_example :
  let h := mkStore [(2%nat, Multi [0%nat; 1%nat]); (1%nat, Single 20%nat); (0%nat, Single 10%nat)] 3 in
  wf h /\ NoDup (elems_of h 2) /\ elems_single h 2 /\
  (exists h' r, apply_op false Datatypes.S h 2 = Some (h', r) /\ r = 5%nat /\ content h' r = [11%nat; 21%nat] /\ content h' 2 = [10%nat; 20%nat]) /\
  (exists h' r, apply_op true Datatypes.S h 2 = Some (h', r) /\ r = 2%nat /\ content h' 2 = [11%nat; 21%nat]).
Proof.
  cbv zeta. split.
  - intros i Hi. cbn in Hi. unfold lk. cbn [st_objs lookup]. destruct i as [|[|[|i]]]; try lia. reflexivity.
  - split; [cbn; repeat constructor; cbn; intuition lia|]. split.
    + intros e He. cbn in He. destruct He as [<-|[<-|[]]]; eexists; reflexivity.
    + split; eexists; eexists; (split; [reflexivity|]); repeat split; reflexivity.
Qed.
