(* C19 - equality of shapes is an equivalence that tracks the definition.
   Statements only; proofs in Proofs/EqualR.v (and Proofs/ObjEqR.v for the deep copy).  Model: Model/Equal.v =
   abstract.SplineGeometry.__eq__ / __ne__ as repaired by fixes/C19-eq-tolerance.diff (tolerance 10 ** -precision
   instead of the number 18) and fixes/C19-eq-ctrlpts-result.diff (the control point comparison is used). *)
From Coq Require Import List QArith Reals Lra Lia Arith Bool.
From NV Require Import Scalar.Ops Model.Common Model.Equal Model.Obj Proofs.EqualR Proofs.ObjEqR.
Import ListNotations.

(* [G] reflexive (any positive tolerance, any shape, even ill-formed ones) *)
Theorem C19_eq_refl : forall (tol : R) (a : @shape R), (0 < tol)%R -> shape_eq Rops tol a a = true.
Proof. exact eq_refl_R. Qed.
Print Assumptions C19_eq_refl.

(* [G] symmetric (both operands use the same tolerance, i.e. the same precision) *)
Theorem C19_eq_sym : forall (tol : R) (a b : @shape R), shape_eq Rops tol a b = shape_eq Rops tol b a.
Proof. exact eq_sym_R. Qed.
Print Assumptions C19_eq_sym.

(* [G] a deep copy (Model/Obj.v: definition copied, caches dropped, fresh provenance ids) equals its source, both ways *)
Theorem C19_deepcopy_eq : forall (tol : R) (o : @obj R) (fresh : nat), (0 < tol)%R ->
  shape_eq Rops tol (shape_of o) (shape_of (deepcopy fresh o)) = true /\
  shape_eq Rops tol (shape_of (deepcopy fresh o)) (shape_of o) = true.
Proof. exact deepcopy_eq. Qed.
Print Assumptions C19_deepcopy_eq.

(* [G] equal only if: same parametric kind and rationality, equal degrees and sizes, knot vectors and homogeneous
   control points of equal lengths that agree within the tolerance *)
Theorem C19_eq_implies_components_close : forall (tol : R) (a b : @shape R), shape_eq Rops tol a b = true ->
  sh_pdim a = sh_pdim b /\ sh_rat a = sh_rat b /\
  (forall k, (k < length (sh_size a))%nat -> (k < length (sh_size b))%nat -> nth k (sh_size a) 0%nat = nth k (sh_size b) 0%nat) /\
  (forall k, (k < length (sh_deg a))%nat -> (k < length (sh_deg b))%nat -> nth k (sh_deg a) 0%nat = nth k (sh_deg b) 0%nat) /\
  (forall k, (k < length (sh_kv a))%nat -> (k < length (sh_kv b))%nat ->
     length (nth k (sh_kv a) []) = length (nth k (sh_kv b) []) /\
     forall j, (j < length (nth k (sh_kv a) []))%nat -> (Rabs (nth j (nth k (sh_kv a) []) 0 - nth j (nth k (sh_kv b) []) 0) < tol)%R) /\
  (forall i, (i < length (sh_cp a))%nat -> (i < length (sh_cp b))%nat ->
     length (nth i (sh_cp a) []) = length (nth i (sh_cp b) []) /\
     forall j, (j < length (nth i (sh_cp a) []))%nat -> (Rabs (nth j (nth i (sh_cp a) []) 0 - nth j (nth i (sh_cp b) []) 0) < tol)%R).
Proof. exact eq_implies_components_close. Qed.
Print Assumptions C19_eq_implies_components_close.

(* [G] for well-formed shapes the whole size / degree vectors and the numbers of knot vectors and points agree *)
Theorem C19_eq_wf_same_layout : forall (tol : R) (a b : @shape R), wf_shape a -> wf_shape b -> shape_eq Rops tol a b = true ->
  sh_size a = sh_size b /\ sh_deg a = sh_deg b /\ length (sh_kv a) = length (sh_kv b) /\ length (sh_cp a) = length (sh_cp b).
Proof. exact eq_wf_same_layout. Qed.
Print Assumptions C19_eq_wf_same_layout.

(* [G] changing any control point coordinate or weight (the last homogeneous coordinate), knot, degree, size, the
   kind or the rationality by at least the tolerance makes the shapes unequal, whatever else they contain *)
Theorem C19_coordinate_or_weight_change_implies_neq : forall (tol : R) (a b : @shape R) i j,
  (i < length (sh_cp a))%nat -> (i < length (sh_cp b))%nat ->
  (j < length (nth i (sh_cp a) []))%nat -> (j < length (nth i (sh_cp b) []))%nat ->
  (tol <= Rabs (nth j (nth i (sh_cp a) []) 0 - nth j (nth i (sh_cp b) []) 0))%R -> shape_eq Rops tol a b = false.
Proof. exact coord_change_implies_neq. Qed.
Print Assumptions C19_coordinate_or_weight_change_implies_neq.

Theorem C19_knot_change_implies_neq : forall (tol : R) (a b : @shape R) k j,
  (k < length (sh_kv a))%nat -> (k < length (sh_kv b))%nat ->
  (j < length (nth k (sh_kv a) []))%nat -> (j < length (nth k (sh_kv b) []))%nat ->
  (tol <= Rabs (nth j (nth k (sh_kv a) []) 0 - nth j (nth k (sh_kv b) []) 0))%R -> shape_eq Rops tol a b = false.
Proof. exact knot_change_implies_neq. Qed.
Print Assumptions C19_knot_change_implies_neq.

Theorem C19_degree_change_implies_neq : forall (tol : R) (a b : @shape R) k,
  (k < length (sh_deg a))%nat -> (k < length (sh_deg b))%nat -> nth k (sh_deg a) 0%nat <> nth k (sh_deg b) 0%nat ->
  shape_eq Rops tol a b = false.
Proof. exact degree_change_implies_neq. Qed.
Print Assumptions C19_degree_change_implies_neq.

Theorem C19_size_change_implies_neq : forall (tol : R) (a b : @shape R) k,
  (k < length (sh_size a))%nat -> (k < length (sh_size b))%nat -> nth k (sh_size a) 0%nat <> nth k (sh_size b) 0%nat ->
  shape_eq Rops tol a b = false.
Proof. exact size_change_implies_neq. Qed.
Print Assumptions C19_size_change_implies_neq.

Theorem C19_kind_change_implies_neq : forall (tol : R) (a b : @shape R), sh_pdim a <> sh_pdim b -> shape_eq Rops tol a b = false.
Proof. exact kind_change_implies_neq. Qed.
Print Assumptions C19_kind_change_implies_neq.

Theorem C19_rationality_change_implies_neq : forall (tol : R) (a b : @shape R), sh_rat a <> sh_rat b -> shape_eq Rops tol a b = false.
Proof. exact rational_change_implies_neq. Qed.
Print Assumptions C19_rationality_change_implies_neq.

(* [G] != is the negation of == (any scalar type) *)
Theorem C19_ne_is_negb_eq : forall (T : Type) (K : ops T) (tol : T) (a b : @shape T), shape_ne K tol a b = negb (shape_eq K tol a b).
Proof. reflexivity. Qed.
Print Assumptions C19_ne_is_negb_eq.

(* the pinned comparison (tolerance 18, control point result discarded) calls shapes with different control points
   equal: coordinates differ by 5 *)
Theorem C19_eq_pinned_refuted : exists (a b : @shape Q),
  shape_eq_pinned Qops 18 a b = true /\ shape_eq Qops (1 # 1000000) a b = false /\ sh_cp a <> sh_cp b.
Proof.
  exists (mkShape 1 false [3]%nat [2]%nat [[0;0;0;1;1;1]%Q] [[0;0];[1;2];[3;0]]%Q),
         (mkShape 1 false [3]%nat [2]%nat [[0;0;0;1;1;1]%Q] [[0;0];[6;2];[3;0]]%Q).
  repeat split; try (vm_compute; reflexivity). discriminate.
Qed.
Print Assumptions C19_eq_pinned_refuted.

(* ---- non-vacuity: concrete shapes on both sides of the tolerance ---- *)
Example C19_ex_within_and_beyond :
  let a := mkShape 1 true [3]%nat [2]%nat [[0;0;0;1;1;1]%Q] [[0;0;1];[2;4;2];[3;0;1]]%Q in
  let b := mkShape 1 true [3]%nat [2]%nat [[0;0;0;1;1;1]%Q] [[0;0;1];[2;4;2 + (1#2000000)];[3;0;1]]%Q in
  let c := mkShape 1 true [3]%nat [2]%nat [[0;0;0;1;1;1]%Q] [[0;0;1];[2;4;2 + (2#1000000)];[3;0;1]]%Q in
  shape_eq Qops (1#1000000) a a = true /\ shape_eq Qops (1#1000000) a b = true /\ shape_eq Qops (1#1000000) b a = true /\
  shape_eq Qops (1#1000000) a c = false /\ shape_ne Qops (1#1000000) a c = true.
Proof. vm_compute. repeat split; reflexivity. Qed.
