(* C11 - fitted curves and surfaces meet interpolation and least-squares conditions.
   Only statements; proofs live under Proofs/FitR.v (building on Proofs/LinAlg*.v of C16 and Proofs/EvalR.v).
   sqrt is not modelled: the chord lengths are inputs (any non-negative list with positive sum).
   [G] general; "given pivots" = under the hypothesis that Doolittle's method meets no zero pivot
   (existence of the LU factorisation for collocation / N^T N matrices is NOT proved: total positivity). *)
From Coq Require Import List QArith Reals Qreals Lia Lra Arith Bool.
From NV Require Import Scalar.Ops Model.Common Model.Basis Model.Knots Model.Eval Model.LinAlg Model.Fit
  Proofs.Boehm Proofs.BasisR Proofs.KnotsR Proofs.EvalR Proofs.LinAlgSums Proofs.LinAlgR Proofs.LinAlgSolve Proofs.FitR Proofs.FitSurfR
  Transfer.BasisT Transfer.LinAlgT Transfer.FitT.
From NV Require Import Proofs.FitSurfMore.
From NV Require Import Proofs.LinAlgSums Proofs.LinAlgR Proofs.LinAlgSolve Proofs.LinAlgDet Proofs.LinAlgDetGen Proofs.FitSurfR Proofs.FitSurfMore Proofs.CollocationLU Proofs.CollocationLUMore Proofs.PosDefLU Proofs.ApproxLU Proofs.CollocationLUSurf Transfer.LinAlgT Transfer.FitT Transfer.CollocationLUT.
Import ListNotations.

(* [G] parameters (chord length or centripetal: any chords >= 0 with positive sum): first 0, last 1, non-decreasing,
   strictly increasing when all chords are positive, u_i = (d_1 + .. + d_i) / (d_1 + .. + d_m) *)
Theorem C11_params_spec : forall cds : list R, (forall x, In x cds -> (0 <= x)%R) -> (0 < sumT Rops cds)%R ->
  exists uk, compute_params_curve Rops cds = Ok uk /\ length uk = S (length cds) /\
    nth 0 uk 0%R = 0%R /\ nth (length cds) uk 0%R = 1%R /\
    (forall i, (i < length cds)%nat -> (nth i uk 0 <= nth (S i) uk 0)%R) /\
    ((forall x, In x cds -> (0 < x)%R) -> forall i, (i < length cds)%nat -> (nth i uk 0 < nth (S i) uk 0)%R) /\
    (forall i, (i <= length cds)%nat -> nth i uk 0%R = (sumT Rops (firstn i cds) / sumT Rops cds)%R).
Proof. exact params_spec. Qed.
Print Assumptions C11_params_spec.

(* [G] the averaged knot vector (Eq 9.8) of valid parameters is a valid clamped knot vector: accepted by
   knotvector.check, p+1 zeros, p+1 ones, non-decreasing *)
Theorem C11_averaged_knots_valid : forall p n (uk : list R), (1 <= p < n)%nat -> length uk = n ->
  nth 0 uk 0%R = 0%R -> nth (n - 1) uk 0%R = 1%R -> (forall i, (S i < n)%nat -> (nth i uk 0 <= nth (S i) uk 0)%R) ->
  let kv := compute_knot_vector Rops p n uk in
  length kv = (n + p + 1)%nat /\ check Rops p kv n = Ok true /\
  (forall i, (i <= p)%nat -> nth i kv 0%R = 0%R) /\ (forall i, (n <= i < n + p + 1)%nat -> nth i kv 0%R = 1%R) /\
  (forall i, (S i < n + p + 1)%nat -> (nth i kv 0 <= nth (S i) kv 0)%R).
Proof. exact averaged_knots_valid. Qed.
Print Assumptions C11_averaged_knots_valid.

(* [G] row i of the collocation matrix applied to a column of control point coordinates is the B-spline sum
   over the active window of the span of parameter i *)
Theorem C11_collocation_row : forall p n (kv : list R) (u : R) (f : nat -> R),
  let span := find_span_linear Rops p kv n u in (p <= span < n)%nat ->
  length (coeff_row Rops p kv n u) = n /\
  sumr Rops 0 n (fun j => nth j (coeff_row Rops p kv n u) 0 * f j)%R
  = sumf (fun k => nth k (basis_function Rops p kv span u) 0 * f (span - p + k)%nat)%R (S p).
Proof. intros p n kv u f span Hs. split; [apply coeff_row_length; exact Hs|apply coeff_row_dot; exact Hs]. Qed.
Print Assumptions C11_collocation_row.

(* [G given pivots] one interpolation solve (used by interpolate_curve and by both passes of interpolate_surface):
   the evaluator model's curve point at parameter i is data point i *)
Theorem C11_interpolation_solve_conditions : forall p n dim (kv params : list R) (pts : list (list R)),
  (0 < n)%nat -> rect n dim pts ->
  (forall i, (i < n)%nat -> (p <= find_span_linear Rops p kv n (nth i params 0%R) < n)%nat) ->
  (forall i, (i < n)%nat -> get2 Rops (snd (doolittle Rops (build_coeff_matrix Rops p kv params n))) i i <> 0%R) ->
  exists P, interp_1d Rops p kv params pts = Ok P /\ rect n dim P /\
    forall i d, (i < n)%nat -> (d < dim)%nat -> nth d (curve_point Rops dim p kv P (nth i params 0%R)) 0%R = get2 Rops pts i d.
Proof. exact interp_1d_conditions. Qed.
Print Assumptions C11_interpolation_solve_conditions.

(* [G given pivots] interpolate_curve: from the chords to C(u_k) = Q_k for every data point, degree p, n control points *)
Theorem C11_interpolate_curve_conditions : forall (pts : list (list R)) (p dim : nat) (cds : list R),
  let n := length pts in
  length cds = (n - 1)%nat -> (1 <= p < n)%nat -> rect n dim pts ->
  (forall x, In x cds -> (0 <= x)%R) -> (0 < sumT Rops cds)%R ->
  (forall uk, compute_params_curve Rops cds = Ok uk -> forall i, (i < n)%nat ->
      get2 Rops (snd (doolittle Rops (build_coeff_matrix Rops p (compute_knot_vector Rops p n uk) uk n))) i i <> 0%R) ->
  exists uk P, compute_params_curve Rops cds = Ok uk /\
    interpolate_curve Rops pts p cds = Ok (P, compute_knot_vector Rops p n uk) /\ rect n dim P /\
    nth 0 uk 0%R = 0%R /\ nth (n - 1) uk 0%R = 1%R /\
    forall k d, (k < n)%nat -> (d < dim)%nat ->
      nth d (curve_point Rops dim p (compute_knot_vector Rops p n uk) P (nth k uk 0%R)) 0%R = get2 Rops pts k d.
Proof. exact interpolate_curve_correct. Qed.
Print Assumptions C11_interpolate_curve_conditions.

(* [G given pivots] interpolate_surface (A9.4): the two passes compose; the evaluator model's surface point at (u_k, v_l)
   is data point (k, l), for different sizes / degrees per direction.  The span hypotheses say p <= span < n, which
   find_span_linear guarantees for every parameter >= kv[p] (C03_find_span_linear_spec); they are discharged for curves in
   C11_interpolate_curve_conditions and kept as hypotheses here (the averaged surface parameters are not analysed). *)
Theorem C11_interpolate_surface_conditions :
  forall (pts : list (list R)) (su sv pu pv dim : nat) (cdsU cdsV : list (list R)) (uk vl : list R),
  (0 < su)%nat -> (0 < sv)%nat -> rect (su * sv) dim pts ->
  compute_params_surface Rops su sv cdsU cdsV = Ok (uk, vl) ->
  let kvu := compute_knot_vector Rops pu su uk in let kvv := compute_knot_vector Rops pv sv vl in
  (forall i, (i < su)%nat -> (pu <= find_span_linear Rops pu kvu su (nth i uk 0%R) < su)%nat) ->
  (forall i, (i < sv)%nat -> (pv <= find_span_linear Rops pv kvv sv (nth i vl 0%R) < sv)%nat) ->
  (forall i, (i < su)%nat -> get2 Rops (snd (doolittle Rops (build_coeff_matrix Rops pu kvu uk su))) i i <> 0%R) ->
  (forall i, (i < sv)%nat -> get2 Rops (snd (doolittle Rops (build_coeff_matrix Rops pv kvv vl sv))) i i <> 0%R) ->
  exists P, interpolate_surface Rops pts su sv pu pv cdsU cdsV = Ok (P, kvu, kvv) /\ length P = (su * sv)%nat /\
    forall u v d, (u < su)%nat -> (v < sv)%nat -> (d < dim)%nat ->
      nth d (surface_point Rops dim pu pv kvu kvv su sv P (nth u uk 0%R) (nth v vl 0%R)) 0%R = get2 Rops pts (v + sv * u) d.
Proof.
  intros pts su sv pu pv dim cdsU cdsV uk vl Hsu Hsv Hpts Hpar kvu kvv HspU HspV HpU HpV.
  destruct (interp_surface_core_conditions pu pv su sv dim kvu kvv uk vl pts Hsu Hsv Hpts HspU HspV HpU HpV) as (P & EP & LP & HP).
  exists P. split; [|split; [exact LP|exact HP]].
  unfold interpolate_surface. rewrite Hpar. cbn [res_bind fst snd]. fold kvu. fold kvv. rewrite EP. reflexivity.
Qed.
Print Assumptions C11_interpolate_surface_conditions.

(* [G] pure algebra: a solution of the normal equations minimises the summed squared residual *)
Theorem C11_normal_equations_minimise : forall (Nf : nat -> nat -> R) (Rf P P' : nat -> R) (m n : nat),
  (forall j, (j < n)%nat -> sumr Rops 0 m (fun i => Nf i j * sumr Rops 0 n (fun k => Nf i k * P k))%R = sumr Rops 0 m (fun i => Nf i j * Rf i)%R) ->
  (sumr Rops 0 m (fun i => (sumr Rops 0 n (fun k => Nf i k * P k) - Rf i) * (sumr Rops 0 n (fun k => Nf i k * P k) - Rf i))
   <= sumr Rops 0 m (fun i => (sumr Rops 0 n (fun k => Nf i k * P' k) - Rf i) * (sumr Rops 0 n (fun k => Nf i k * P' k) - Rf i)))%R.
Proof. exact normal_equations_minimise. Qed.
Print Assumptions C11_normal_equations_minimise.

(* [G given pivots] one least-squares solve (approximate_curve, and every row / column solve of approximate_surface):
   the end control points are the end data points, the interior control points satisfy the normal equations
   and every coordinate of them minimises  sum_i (sum_k N_k(u_i) x_k - Rk_i)^2  with Rk_i = Q_i - N_0(u_i) Q_0 - N_n(u_i) Q_m *)
Theorem C11_approximation_solve_least_squares : forall p c dim (kv params : list R) (pts : list (list R)),
  let r := length pts in (3 <= r)%nat -> (3 <= c)%nat -> rect r dim pts ->
  let Nm := approx_N Rops p c kv params r in let Rk := approx_Rk Rops p c kv params pts in
  (forall i, (i < c - 2)%nat -> get2 Rops (snd (doolittle Rops (mmul Rops (transpose Rops Nm) Nm))) i i <> 0%R) ->
  exists X, approx_1d Rops p c kv params pts = Ok ([nth 0 pts []] ++ X ++ [nth (r - 1) pts []]) /\ rect (c - 2) dim X /\
    (forall j d, (j < c - 2)%nat -> (d < dim)%nat ->
       sumr Rops 0 (r - 2) (fun i => get2 Rops Nm i j * sumr Rops 0 (c - 2) (fun k => get2 Rops Nm i k * get2 Rops X k d))%R
       = sumr Rops 0 (r - 2) (fun i => get2 Rops Nm i j * get2 Rops Rk i d)%R) /\
    forall d (X' : nat -> R), (d < dim)%nat ->
      (sumr Rops 0 (r - 2) (fun i => (sumr Rops 0 (c - 2) (fun k => get2 Rops Nm i k * get2 Rops X k d) - get2 Rops Rk i d) * (sumr Rops 0 (c - 2) (fun k => get2 Rops Nm i k * get2 Rops X k d) - get2 Rops Rk i d))
       <= sumr Rops 0 (r - 2) (fun i => (sumr Rops 0 (c - 2) (fun k => get2 Rops Nm i k * X' k) - get2 Rops Rk i d) * (sumr Rops 0 (c - 2) (fun k => get2 Rops Nm i k * X' k) - get2 Rops Rk i d)))%R.
Proof. intros p c dim kv params pts r Hr Hc Hpts Nm Rk Hp. exact (approx_1d_least_squares p c dim kv params pts Hr Hc Hpts Hp). Qed.
Print Assumptions C11_approximation_solve_least_squares.

(* [G given pivots] approximate_curve from the chords: c control points, end points kept, interior ones least-squares optimal *)
Theorem C11_approximate_curve_least_squares : forall (pts : list (list R)) (p c dim : nat) (cds : list R),
  let r := length pts in
  (3 <= r)%nat -> (3 <= c)%nat -> rect r dim pts -> (forall x, In x cds -> (0 <= x)%R) -> (0 < sumT Rops cds)%R ->
  (forall uk, compute_params_curve Rops cds = Ok uk -> forall i, (i < c - 2)%nat ->
     let Nm := approx_N Rops p c (compute_knot_vector2 Rops p r c uk) uk r in
     get2 Rops (snd (doolittle Rops (mmul Rops (transpose Rops Nm) Nm))) i i <> 0%R) ->
  exists uk X, compute_params_curve Rops cds = Ok uk /\
    approximate_curve Rops pts p c cds = Ok ([nth 0 pts []] ++ X ++ [nth (r - 1) pts []], compute_knot_vector2 Rops p r c uk) /\
    rect (c - 2) dim X /\
    let kv := compute_knot_vector2 Rops p r c uk in
    let Nm := approx_N Rops p c kv uk r in let Rk := approx_Rk Rops p c kv uk pts in
    forall d (X' : nat -> R), (d < dim)%nat ->
      (sumr Rops 0 (r - 2) (fun i => (sumr Rops 0 (c - 2) (fun k => get2 Rops Nm i k * get2 Rops X k d) - get2 Rops Rk i d) * (sumr Rops 0 (c - 2) (fun k => get2 Rops Nm i k * get2 Rops X k d) - get2 Rops Rk i d))
       <= sumr Rops 0 (r - 2) (fun i => (sumr Rops 0 (c - 2) (fun k => get2 Rops Nm i k * X' k) - get2 Rops Rk i d) * (sumr Rops 0 (c - 2) (fun k => get2 Rops Nm i k * X' k) - get2 Rops Rk i d)))%R.
Proof. exact approximate_curve_correct. Qed.
Print Assumptions C11_approximate_curve_least_squares.

(* NOT proved: the LU factorisation exists (no zero pivot) for collocation matrices of strictly increasing
   parameters with averaged knots, and for N^T N with the knots of Eq 9.69 (Schoenberg-Whitney, total positivity) *)
Definition C11_collocation_pivots_nonzero_full : Prop := forall (p n : nat) (uk : list R), (1 <= p < n)%nat -> length uk = n ->
  nth 0 uk 0%R = 0%R -> nth (n - 1) uk 0%R = 1%R -> (forall i, (S i < n)%nat -> (nth i uk 0 < nth (S i) uk 0)%R) ->
  forall i, (i < n)%nat -> get2 Rops (snd (doolittle Rops (build_coeff_matrix Rops p (compute_knot_vector Rops p n uk) uk n))) i i <> 0%R.

(* ------------------------------------------------------------------ non-vacuity *)
Definition exPts : list (list Q) := [[0;0];[3;4];[3;8];[6;12];[6;16]]%Q.
Definition exCds : list Q := [5;4;5;4]%Q.
Lemma exCds_pos : forall x, In x (map Q2R exCds) -> (0 < x)%R.
Proof. intros x H. cbn in H. unfold Q2R in H. cbn in H. repeat (destruct H as [H|H]; [subst x; lra|]). contradiction. Qed.
(* all hypotheses of C11_interpolate_curve_conditions hold for a cubic through 5 points; the executable instance
   returns a curve that passes through the data at its parameters *)
Example C11_interpolation_hypotheses_satisfiable :
  let pts := mQ2R exPts in let cds := map Q2R exCds in
  length cds = (length pts - 1)%nat /\ rect 5 2 pts /\ (forall x, In x cds -> (0 <= x)%R) /\ (0 < sumT Rops cds)%R /\
  (forall uk, compute_params_curve Rops cds = Ok uk -> forall i, (i < 5)%nat ->
      get2 Rops (snd (doolittle Rops (build_coeff_matrix Rops 3 (compute_knot_vector Rops 3 5 uk) uk 5))) i i <> 0%R) /\
  (exists P kv uk, interpolate_curve Qops exPts 3 exCds = Ok (P, kv) /\ compute_params_curve Qops exCds = Ok uk /\
     map (curve_point Qops 2 3 kv P) uk = exPts).
Proof.
  cbv zeta. split; [reflexivity|]. split.
  { split; [reflexivity|]. intros row Hin. cbn in Hin. repeat (destruct Hin as [E|Hin]; [subst row; reflexivity|]). contradiction. }
  split; [intros x Hx; left; apply exCds_pos, Hx|]. split.
  { rewrite sum_transfer. replace (sumT Qops exCds) with (18#1)%Q by (vm_compute; reflexivity). unfold Q2R. cbn. lra. }
  split.
  - intros uk Huk. rewrite params_transfer in Huk.
    assert (E : compute_params_curve Qops exCds = Ok [0; 5#18; 1#2; 7#9; 1]%Q) by (vm_compute; reflexivity).
    rewrite E in Huk. cbn [res_map] in Huk. injection Huk as <-.
    change [Q2R 0; Q2R (5 # 18); Q2R (1 # 2); Q2R (7 # 9); Q2R 1] with (map Q2R [0; 5#18; 1#2; 7#9; 1]%Q).
    rewrite knot_vector_transfer, coeff_matrix_transfer. apply pivots_transfer.
    intros i Hi. assert (C : (i = 0 \/ i = 1 \/ i = 2 \/ i = 3 \/ i = 4)%nat) by lia.
    destruct C as [-> | [-> | [-> | [-> | ->]]]]; vm_compute; discriminate.
  - eexists. eexists. eexists. split; [vm_compute; reflexivity|]. split; [vm_compute; reflexivity|]. vm_compute. reflexivity.
Qed.
(* hypotheses of C11_approximate_curve_least_squares hold for 5 data points, degree 2, 4 control points *)
Example C11_approximation_hypotheses_satisfiable :
  let pts := mQ2R exPts in let cds := map Q2R exCds in
  (3 <= length pts)%nat /\ rect 5 2 pts /\ (0 < sumT Rops cds)%R /\
  (forall uk, compute_params_curve Rops cds = Ok uk -> forall i, (i < 4 - 2)%nat ->
     let Nm := approx_N Rops 2 4 (compute_knot_vector2 Rops 2 5 4 uk) uk 5 in
     get2 Rops (snd (doolittle Rops (mmul Rops (transpose Rops Nm) Nm))) i i <> 0%R) /\
  (exists P kv, approximate_curve Qops exPts 2 4 exCds = Ok (P, kv) /\ length P = 4%nat /\ nth 0 P [] = [0;0]%Q /\ nth 3 P [] = [6;16]%Q).
Proof.
  cbv zeta. split; [cbn; lia|]. split.
  { split; [reflexivity|]. intros row Hin. cbn in Hin. repeat (destruct Hin as [E|Hin]; [subst row; reflexivity|]). contradiction. }
  split.
  { rewrite sum_transfer. replace (sumT Qops exCds) with (18#1)%Q by (vm_compute; reflexivity). unfold Q2R. cbn. lra. }
  split.
  - intros uk Huk. rewrite params_transfer in Huk.
    assert (E : compute_params_curve Qops exCds = Ok [0; 5#18; 1#2; 7#9; 1]%Q) by (vm_compute; reflexivity).
    rewrite E in Huk. cbn [res_map] in Huk. injection Huk as <-.
    change [Q2R 0; Q2R (5 # 18); Q2R (1 # 2); Q2R (7 # 9); Q2R 1] with (map Q2R [0; 5#18; 1#2; 7#9; 1]%Q).
    intros i Hi. cbv zeta. rewrite knot_vector2_transfer, approx_N_transfer, transpose_transfer, mmul_transfer.
    revert i Hi. apply pivots_transfer.
    intros i Hi. assert (C : (i = 0 \/ i = 1)%nat) by lia.
    destruct C as [-> | ->]; vm_compute; discriminate.
  - eexists. eexists. split; [vm_compute; reflexivity|]. repeat split.
Qed.

(* a 3 x 4 grid (translation surface of two polylines with integer chords), degrees (2, 2): all hypotheses of
   C11_interpolate_surface_conditions hold over the reals; the executable instance interpolates the 12 points *)
Definition exS : list (list Q) :=
  [[0;0];[4;0];[4;9];[8;12];  [3;4];[7;4];[7;13];[11;16];  [3;8];[7;8];[7;17];[11;20]]%Q.
Definition exSU : list (list Q) := [[5;4];[5;4];[5;4];[5;4]]%Q.
Definition exSV : list (list Q) := [[4;9;5];[4;9;5];[4;9;5]]%Q.
Definition exUk : list Q := [0; 5#9; 1]%Q.
Definition exVl : list Q := [0; 2#9; 13#18; 1]%Q.
Example C11_surface_hypotheses_satisfiable :
  let uk := map Q2R exUk in let vl := map Q2R exVl in
  let kvu := compute_knot_vector Rops 2 3 uk in let kvv := compute_knot_vector Rops 2 4 vl in
  rect (3 * 4) 2 (mQ2R exS) /\
  compute_params_surface Rops 3 4 (mQ2R exSU) (mQ2R exSV) = Ok (uk, vl) /\
  (forall i, (i < 3)%nat -> (2 <= find_span_linear Rops 2 kvu 3 (nth i uk 0%R) < 3)%nat) /\
  (forall i, (i < 4)%nat -> (2 <= find_span_linear Rops 2 kvv 4 (nth i vl 0%R) < 4)%nat) /\
  (forall i, (i < 3)%nat -> get2 Rops (snd (doolittle Rops (build_coeff_matrix Rops 2 kvu uk 3))) i i <> 0%R) /\
  (forall i, (i < 4)%nat -> get2 Rops (snd (doolittle Rops (build_coeff_matrix Rops 2 kvv vl 4))) i i <> 0%R) /\
  (exists P kvu' kvv', interpolate_surface Qops exS 3 4 2 2 exSU exSV = Ok (P, kvu', kvv') /\
     flat_map (fun u => map (fun v => surface_point Qops 2 2 2 kvu' kvv' 3 4 P u v) exVl) exUk = exS).
Proof.
  cbv zeta. split.
  { split; [reflexivity|]. intros row Hin. cbn in Hin. repeat (destruct Hin as [E|Hin]; [subst row; reflexivity|]). contradiction. }
  split.
  { rewrite params_surface_transfer.
    replace (compute_params_surface Qops 3 4 exSU exSV) with (Ok (exUk, exVl)) by (vm_compute; reflexivity). reflexivity. }
  rewrite !knot_vector_transfer. split.
  { intros i Hi. rewrite nth_Q2R, span_transfer. assert (C : (i = 0 \/ i = 1 \/ i = 2)%nat) by lia.
    destruct C as [-> | [-> | ->]]; vm_compute; lia. }
  split.
  { intros i Hi. rewrite nth_Q2R, span_transfer. assert (C : (i = 0 \/ i = 1 \/ i = 2 \/ i = 3)%nat) by lia.
    destruct C as [-> | [-> | [-> | ->]]]; vm_compute; lia. }
  rewrite !coeff_matrix_transfer. split.
  { apply pivots_transfer. intros i Hi. assert (C : (i = 0 \/ i = 1 \/ i = 2)%nat) by lia.
    destruct C as [-> | [-> | ->]]; vm_compute; discriminate. }
  split.
  { apply pivots_transfer. intros i Hi. assert (C : (i = 0 \/ i = 1 \/ i = 2 \/ i = 3)%nat) by lia.
    destruct C as [-> | [-> | [-> | ->]]]; vm_compute; discriminate. }
  eexists. eexists. eexists. split; [vm_compute; reflexivity|]. vm_compute. reflexivity.
Qed.

(* ====================== round 2 (Proofs/FitSurfMore.v): surface interpolation from the chords; corner interpolation of approximate_surface ====================== *)
(* [G] the span search never leaves [p, n-1]: the span hypotheses of C11_interpolate_surface_conditions always hold *)
Theorem C11_averaged_knot_spans_in_range : forall p n (uk : list R) (u : R), (p < n)%nat ->
  (p <= find_span_linear Rops p (compute_knot_vector Rops p n uk) n u < n)%nat.
Proof. exact ckv_spans. Qed.
Print Assumptions C11_averaged_knot_spans_in_range.

(* [G] compute_params_surface: chords >= 0 with positive sum in every row / column -> success; both averaged parameter
   lists have the documented length, start at 0, end at 1, are non-decreasing (strictly increasing for positive chords) *)
Theorem C11_params_surface_spec : forall (su sv : nat) (cdsU cdsV : list (list R)),
  (1 <= su)%nat -> (1 <= sv)%nat -> cdsU <> [] -> cdsV <> [] ->
  (forall cds, In cds cdsU -> chords_ok su cds) -> (forall cds, In cds cdsV -> chords_ok sv cds) ->
  exists uk vl, compute_params_surface Rops su sv cdsU cdsV = Ok (uk, vl) /\ pspec su uk /\ pspec sv vl /\
    ((forall cds, In cds cdsU -> forall x, In x cds -> (0 < x)%R) -> pstrict su uk) /\
    ((forall cds, In cds cdsV -> forall x, In x cds -> (0 < x)%R) -> pstrict sv vl).
Proof. exact params_surface_spec. Qed.
Print Assumptions C11_params_surface_spec.

(* [G given pivots] C11_interpolate_surface_conditions without span hypotheses *)
Theorem C11_interpolate_surface_conditions_pivots_only :
  forall (pts : list (list R)) (su sv pu pv dim : nat) (cdsU cdsV : list (list R)) (uk vl : list R),
  (pu < su)%nat -> (pv < sv)%nat -> rect (su * sv) dim pts ->
  compute_params_surface Rops su sv cdsU cdsV = Ok (uk, vl) ->
  let kvu := compute_knot_vector Rops pu su uk in let kvv := compute_knot_vector Rops pv sv vl in
  (forall i, (i < su)%nat -> get2 Rops (snd (doolittle Rops (build_coeff_matrix Rops pu kvu uk su))) i i <> 0%R) ->
  (forall i, (i < sv)%nat -> get2 Rops (snd (doolittle Rops (build_coeff_matrix Rops pv kvv vl sv))) i i <> 0%R) ->
  exists P, interpolate_surface Rops pts su sv pu pv cdsU cdsV = Ok (P, kvu, kvv) /\ length P = (su * sv)%nat /\
    forall u v d, (u < su)%nat -> (v < sv)%nat -> (d < dim)%nat ->
      nth d (surface_point Rops dim pu pv kvu kvv su sv P (nth u uk 0%R) (nth v vl 0%R)) 0%R = get2 Rops pts (v + sv * u) d.
Proof. exact interpolate_surface_conditions_pivots. Qed.
Print Assumptions C11_interpolate_surface_conditions_pivots_only.

(* [G given pivots] interpolate_surface from the chords: parameters, valid clamped averaged knot vectors, S(u_k, v_l) = Q_kl *)
Theorem C11_interpolate_surface_conditions_full : interpolate_surface_conditions_full.
Proof. exact interpolate_surface_from_chords. Qed.
Print Assumptions C11_interpolate_surface_conditions_full.

(* [G given pivots] approximate_surface: both passes compose; corner control points = corner data points;
   corner interpolation when the interior knots of Eq 9.69 lie strictly in (0, 1) *)
Theorem C11_approximate_surface_corners :
  forall (pts : list (list R)) (su sv pu pv cu cv dim : nat) (cdsU cdsV : list (list R)) (uk vl : list R),
  (3 <= su)%nat -> (3 <= sv)%nat -> (3 <= cu)%nat -> (3 <= cv)%nat -> (pu < cu)%nat -> (pv < cv)%nat ->
  rect (su * sv) dim pts -> compute_params_surface Rops su sv cdsU cdsV = Ok (uk, vl) ->
  let kvu := compute_knot_vector2 Rops pu su cu uk in let kvv := compute_knot_vector2 Rops pv sv cv vl in
  (forall i, (i < cu - 2)%nat ->
     get2 Rops (snd (doolittle Rops (mmul Rops (transpose Rops (approx_N Rops pu cu kvu uk su)) (approx_N Rops pu cu kvu uk su)))) i i <> 0%R) ->
  (forall i, (i < cv - 2)%nat ->
     get2 Rops (snd (doolittle Rops (mmul Rops (transpose Rops (approx_N Rops pv cv kvv vl sv)) (approx_N Rops pv cv kvv vl sv)))) i i <> 0%R) ->
  exists P, approximate_surface Rops pts su sv pu pv cu cv cdsU cdsV = Ok (P, kvu, kvv) /\ length P = (cu * cv)%nat /\
    (forall k, (k < cu * cv)%nat -> length (nth k P []) = dim) /\
    nth 0 P [] = nth 0 pts [] /\
    nth (cv - 1) P [] = nth (sv - 1) pts [] /\
    nth (cv * (cu - 1)) P [] = nth (sv * (su - 1)) pts [] /\
    nth (cv - 1 + cv * (cu - 1)) P [] = nth (sv - 1 + sv * (su - 1)) pts [] /\
    ((forall i, (S pu <= i < cu)%nat -> (0 < knR kvu i < 1)%R) -> (forall i, (S pv <= i < cv)%nat -> (0 < knR kvv i < 1)%R) ->
     forall d, (d < dim)%nat ->
       nth d (surface_point Rops dim pu pv kvu kvv cu cv P 0%R 0%R) 0%R = get2 Rops pts 0 d /\
       nth d (surface_point Rops dim pu pv kvu kvv cu cv P 0%R 1%R) 0%R = get2 Rops pts (sv - 1) d /\
       nth d (surface_point Rops dim pu pv kvu kvv cu cv P 1%R 0%R) 0%R = get2 Rops pts (sv * (su - 1)) d /\
       nth d (surface_point Rops dim pu pv kvu kvv cu cv P 1%R 1%R) 0%R = get2 Rops pts (sv - 1 + sv * (su - 1)) d).
Proof. exact approximate_surface_corners. Qed.
Print Assumptions C11_approximate_surface_corners.

(* [G] Eq 9.69 knots of strictly increasing parameters with more data points than interior spans: strictly inside (0, 1) *)
Theorem C11_approximation_knots_interior : forall (p r c : nat) (params : list R), (p < c)%nat ->
  pspec r params -> pstrict r params -> (c - p < r)%nat ->
  forall i, (S p <= i < c)%nat -> (0 < knR (compute_knot_vector2 Rops p r c params) i < 1)%R.
Proof. exact ckv2_interior. Qed.
Print Assumptions C11_approximation_knots_interior.

(* [G given pivots] approximate_surface from positive chords: the corner data points are interpolated *)
Theorem C11_approximate_surface_corners_full : approximate_surface_corners_full.
Proof. exact approximate_surface_from_chords. Qed.
Print Assumptions C11_approximate_surface_corners_full.

(* non-vacuity: the 3 x 4 grid exS of above, degrees (2, 2), 3 x 3 control points: executable instance keeps the corners *)
Example C11_ex_approximate_surface_corners :
  exists P kvu kvv, approximate_surface Qops exS 3 4 2 2 3 3 exSU exSV = Ok (P, kvu, kvv) /\ length P = 9%nat /\
    nth 0 P [] = nth 0 exS [] /\ nth 2 P [] = nth 3 exS [] /\ nth 6 P [] = nth 8 exS [] /\ nth 8 P [] = nth 11 exS [] /\
    map (fun uv => surface_point Qops 2 2 2 kvu kvv 3 3 P (fst uv) (snd uv)) [(0,0);(0,1);(1,0);(1,1)]%Q
      = [nth 0 exS []; nth 3 exS []; nth 8 exS []; nth 11 exS []].
Proof. eexists. eexists. eexists. split; [vm_compute; reflexivity|]. vm_compute. repeat split. Qed.

(* ====================== round 2 (Proofs/BsplineTP.v, CollocationLU*.v, ApproxLU.v, PosDefLU.v): the LU factorisations EXIST - total positivity of
   B-spline collocation matrices (Schoenberg-Whitney for the averaged knots), positive definiteness of N^T N; every 'given pivots' theorem above now
   has an unconditional version ====================== *)
(* ================= Props/C11.v ================= *)
(* [G] every degree, every size: Doolittle (no pivoting) meets no zero pivot on the interpolation matrix *)
Theorem C11_collocation_pivots_nonzero : C11_collocation_pivots_nonzero_full.
Proof. exact collocation_pivots_nonzero. Qed.
Print Assumptions C11_collocation_pivots_nonzero.

(* [G] Schoenberg-Whitney for the averaged knot vector (Eq 9.8) *)
Theorem C11_averaged_knots_schoenberg_whitney : forall (p n : nat) (uk : list R), (1 <= p < n)%nat -> length uk = n ->
  nth 0 uk 0%R = 0%R -> nth (n - 1) uk 0%R = 1%R -> (forall i, (S i < n)%nat -> (nth i uk 0 < nth (S i) uk 0)%R) ->
  let kv := compute_knot_vector Rops p n uk in
  forall j, (j < n)%nat ->
    (nth j kv 0 <= nth j uk 0 <= nth (j + p + 1) kv 0)%R /\
    ((0 < j)%nat -> (nth j kv 0 < nth j uk 0)%R) /\ ((j < n - 1)%nat -> (nth j uk 0 < nth (j + p + 1) kv 0)%R).
Proof. exact averaged_knots_schoenberg_whitney. Qed.
Print Assumptions C11_averaged_knots_schoenberg_whitney.

(* [G] structure of the interpolation matrix: Cox-de Boor values, first row e_0, last row e_{n-1}, banded,
   non-negative, rows sum to 1, strictly positive diagonal *)
Theorem C11_collocation_matrix_structure : forall (p n : nat) (uk : list R), (1 <= p < n)%nat -> length uk = n ->
  nth 0 uk 0%R = 0%R -> nth (n - 1) uk 0%R = 1%R -> (forall i, (S i < n)%nat -> (nth i uk 0 < nth (S i) uk 0)%R) ->
  let kv := compute_knot_vector Rops p n uk in let A := build_coeff_matrix Rops p kv uk n in
  length A = n /\
  (forall i j, (i < n - 1)%nat -> (j < n)%nat -> get2 Rops A i j = N (Ufun kv) p j (nth i uk 0%R)) /\
  (forall j, (j < n)%nat -> get2 Rops A 0 j = if Nat.eqb j 0 then 1%R else 0%R) /\
  (forall j, (j < n)%nat -> get2 Rops A (n - 1) j = if Nat.eqb j (n - 1) then 1%R else 0%R) /\
  (forall i j, (i < n)%nat -> (j < n)%nat -> let s := find_span_linear Rops p kv n (nth i uk 0%R) in
      (p <= s < n)%nat /\ ((j < s - p \/ s < j)%nat -> get2 Rops A i j = 0%R) /\ (0 <= get2 Rops A i j)%R) /\
  (forall i, (i < n)%nat -> sumr Rops 0 n (fun j => get2 Rops A i j) = 1%R) /\
  (forall j, (j < n)%nat -> (0 < get2 Rops A j j)%R).
Proof. exact collocation_matrix_structure. Qed.
Print Assumptions C11_collocation_matrix_structure.

(* [G] all leading principal minors (Leibniz determinants of the top-left blocks) and all pivots are > 0 *)
Theorem C11_collocation_pivots_positive : forall (p n : nat) (uk : list R), (1 <= p < n)%nat -> length uk = n ->
  nth 0 uk 0%R = 0%R -> nth (n - 1) uk 0%R = 1%R -> (forall i, (S i < n)%nat -> (nth i uk 0 < nth (S i) uk 0)%R) ->
  forall i, (i < n)%nat ->
    (0 < get2 Rops (snd (doolittle Rops (build_coeff_matrix Rops p (compute_knot_vector Rops p n uk) uk n))) i i)%R /\
    (0 < leibF (S i) (fun r c => get2 Rops (build_coeff_matrix Rops p (compute_knot_vector Rops p n uk) uk n) c r))%R.
Proof.
  intros p n uk Hp HL H0 H1 Hinc i Hi. split; [apply collocation_pivots_positive|apply collocation_leading_minors_positive]; assumption.
Qed.
Print Assumptions C11_collocation_pivots_positive.

(* [G] one interpolation solve with the averaged knot vector: NO pivot hypothesis *)
Theorem C11_interpolation_solve_conditions_unconditional : forall (p n dim : nat) (uk : list R) (pts : list (list R)),
  (1 <= p < n)%nat -> length uk = n ->
  nth 0 uk 0%R = 0%R -> nth (n - 1) uk 0%R = 1%R -> (forall i, (S i < n)%nat -> (nth i uk 0 < nth (S i) uk 0)%R) -> rect n dim pts ->
  let kv := compute_knot_vector Rops p n uk in
  exists P, interp_1d Rops p kv uk pts = Ok P /\ rect n dim P /\
    forall i d, (i < n)%nat -> (d < dim)%nat -> nth d (curve_point Rops dim p kv P (nth i uk 0%R)) 0%R = get2 Rops pts i d.
Proof. exact interp_1d_averaged_conditions. Qed.
Print Assumptions C11_interpolation_solve_conditions_unconditional.

(* [G] THE PROPERTY (curves): data with strictly positive chords (distinct consecutive points), any degree 1 <= p < n:
   interpolate_curve returns a curve and it passes through every data point at its parameter *)
Theorem C11_interpolate_curve_interpolates : forall (pts : list (list R)) (p dim : nat) (cds : list R),
  let n := length pts in
  length cds = (n - 1)%nat -> (1 <= p < n)%nat -> rect n dim pts -> (forall x, In x cds -> (0 < x)%R) ->
  exists uk P, compute_params_curve Rops cds = Ok uk /\
    interpolate_curve Rops pts p cds = Ok (P, compute_knot_vector Rops p n uk) /\ rect n dim P /\
    nth 0 uk 0%R = 0%R /\ nth (n - 1) uk 0%R = 1%R /\
    forall k d, (k < n)%nat -> (d < dim)%nat ->
      nth d (curve_point Rops dim p (compute_knot_vector Rops p n uk) P (nth k uk 0%R)) 0%R = get2 Rops pts k d.
Proof. exact interpolate_curve_interpolates. Qed.
Print Assumptions C11_interpolate_curve_interpolates.

(* [G] surfaces: strictly increasing averaged parameters in both directions: no span / pivot hypotheses *)
Theorem C11_interpolate_surface_interpolates :
  forall (pts : list (list R)) (su sv pu pv dim : nat) (cdsU cdsV : list (list R)) (uk vl : list R),
  (1 <= pu < su)%nat -> (1 <= pv < sv)%nat -> rect (su * sv) dim pts ->
  compute_params_surface Rops su sv cdsU cdsV = Ok (uk, vl) ->
  increasing_params su uk -> increasing_params sv vl ->
  let kvu := compute_knot_vector Rops pu su uk in let kvv := compute_knot_vector Rops pv sv vl in
  exists P, interpolate_surface Rops pts su sv pu pv cdsU cdsV = Ok (P, kvu, kvv) /\ length P = (su * sv)%nat /\
    forall u v d, (u < su)%nat -> (v < sv)%nat -> (d < dim)%nat ->
      nth d (surface_point Rops dim pu pv kvu kvv su sv P (nth u uk 0%R) (nth v vl 0%R)) 0%R = get2 Rops pts (v + sv * u) d.
Proof. exact interpolate_surface_interpolates. Qed.
Print Assumptions C11_interpolate_surface_interpolates.

(* [G] the EXECUTABLE rational instance: no zero pivot, interp_1d Qops returns control points solving the system *)
Theorem C11_collocation_pivots_nonzero_Q : forall (p n : nat) (uk : list Q), (1 <= p < n)%nat -> length uk = n ->
  (nth 0 uk 0 == 0)%Q -> (nth (n - 1) uk 0 == 1)%Q -> (forall i, (S i < n)%nat -> (nth i uk 0 < nth (S i) uk 0)%Q) ->
  forall i, (i < n)%nat ->
    ~ (get2 Qops (snd (doolittle Qops (build_coeff_matrix Qops p (compute_knot_vector Qops p n uk) uk n))) i i == 0)%Q.
Proof. exact collocation_pivots_nonzero_Q. Qed.
Print Assumptions C11_collocation_pivots_nonzero_Q.


(* [G] THE PROPERTY (surfaces): every row / column of the data grid has strictly positive chords, 1 <= pu < su, 1 <= pv < sv:
   interpolate_surface returns a surface and it passes through every data point; no span / pivot hypotheses *)
Theorem C11_interpolate_surface_interpolates_from_chords :
  forall (pts : list (list R)) (su sv pu pv dim : nat) (cdsU cdsV : list (list R)),
  (1 <= pu < su)%nat -> (1 <= pv < sv)%nat -> rect (su * sv) dim pts -> cdsU <> [] -> cdsV <> [] ->
  (forall cds, In cds cdsU -> length cds = (su - 1)%nat /\ forall x, In x cds -> (0 < x)%R) ->
  (forall cds, In cds cdsV -> length cds = (sv - 1)%nat /\ forall x, In x cds -> (0 < x)%R) ->
  exists uk vl P, compute_params_surface Rops su sv cdsU cdsV = Ok (uk, vl) /\
    let kvu := compute_knot_vector Rops pu su uk in let kvv := compute_knot_vector Rops pv sv vl in
    interpolate_surface Rops pts su sv pu pv cdsU cdsV = Ok (P, kvu, kvv) /\ length P = (su * sv)%nat /\
    increasing_params su uk /\ increasing_params sv vl /\
    forall u v d, (u < su)%nat -> (v < sv)%nat -> (d < dim)%nat ->
      nth d (surface_point Rops dim pu pv kvu kvv su sv P (nth u uk 0%R) (nth v vl 0%R)) 0%R = get2 Rops pts (v + sv * u) d.
Proof. exact interpolate_surface_interpolates_from_chords. Qed.
Print Assumptions C11_interpolate_surface_interpolates_from_chords.

(* [G] least squares: the normal-equation matrix N^T N (knots of Eq 9.69) has only non-zero Doolittle pivots,
   every degree p >= 1, every p + 2 <= c <= r - 1 *)
Theorem C11_approx_normal_pivots_nonzero : forall (p r c : nat) (params : list R), (1 <= p)%nat -> (p + 2 <= c)%nat -> (c < r)%nat ->
  length params = r -> nth 0 params 0%R = 0%R -> nth (r - 1) params 0%R = 1%R ->
  (forall i, (S i < r)%nat -> (nth i params 0 < nth (S i) params 0)%R) ->
  forall i, (i < c - 2)%nat ->
    let Nm := approx_N Rops p c (compute_knot_vector2 Rops p r c params) params r in
    get2 Rops (snd (doolittle Rops (mmul Rops (transpose Rops Nm) Nm))) i i <> 0%R.
Proof. exact approx_normal_pivots_nonzero. Qed.
Print Assumptions C11_approx_normal_pivots_nonzero.

(* [G] Schoenberg-Whitney for the knot vector of Eq 9.69 (sigma j = max(j, ceil((j-p) r / (c-p))) is strictly increasing) *)
Theorem C11_knot_vector2_schoenberg_whitney : forall (p r c : nat) (params : list R), (1 <= p)%nat -> (p + 2 <= c)%nat -> (c < r)%nat ->
  length params = r -> nth 0 params 0%R = 0%R -> nth (r - 1) params 0%R = 1%R ->
  (forall i, (S i < r)%nat -> (nth i params 0 < nth (S i) params 0)%R) ->
  let kv := compute_knot_vector2 Rops p r c params in
  sortedR kv /\ length kv = (c + p + 1)%nat /\
  (forall j, (sigma p r c j < sigma p r c (S j))%nat) /\
  forall j, (1 <= j <= c - 2)%nat -> (1 <= sigma p r c j <= r - 2)%nat /\
    (nth j kv 0 < nth (sigma p r c j) params 0 < nth (j + p + 1) kv 0)%R.
Proof. exact knot_vector2_schoenberg_whitney. Qed.
Print Assumptions C11_knot_vector2_schoenberg_whitney.

(* [G] THE PROPERTY (least-squares curves): strictly positive chords, p >= 1, p + 2 <= c <= r - 1: approximate_curve returns,
   keeps the end points, every coordinate of the interior control points minimises the summed squared residual; no pivot hypothesis *)
Theorem C11_approximate_curve_least_squares_unconditional : forall (pts : list (list R)) (p c dim : nat) (cds : list R),
  let r := length pts in
  length cds = (r - 1)%nat -> (1 <= p)%nat -> (p + 2 <= c)%nat -> (c < r)%nat -> rect r dim pts -> (forall x, In x cds -> (0 < x)%R) ->
  exists uk X, compute_params_curve Rops cds = Ok uk /\
    approximate_curve Rops pts p c cds = Ok ([nth 0 pts []] ++ X ++ [nth (r - 1) pts []], compute_knot_vector2 Rops p r c uk) /\
    rect (c - 2) dim X /\
    let kv := compute_knot_vector2 Rops p r c uk in
    let Nm := approx_N Rops p c kv uk r in let Rk := approx_Rk Rops p c kv uk pts in
    forall d (X' : nat -> R), (d < dim)%nat ->
      (sumr Rops 0 (r - 2) (fun i => (sumr Rops 0 (c - 2) (fun k => get2 Rops Nm i k * get2 Rops X k d) - get2 Rops Rk i d) * (sumr Rops 0 (c - 2) (fun k => get2 Rops Nm i k * get2 Rops X k d) - get2 Rops Rk i d))
       <= sumr Rops 0 (r - 2) (fun i => (sumr Rops 0 (c - 2) (fun k => get2 Rops Nm i k * X' k) - get2 Rops Rk i d) * (sumr Rops 0 (c - 2) (fun k => get2 Rops Nm i k * X' k) - get2 Rops Rk i d)))%R.
Proof. exact approximate_curve_least_squares_unconditional. Qed.
Print Assumptions C11_approximate_curve_least_squares_unconditional.

(* [G] THE PROPERTY (least-squares surfaces): corner control points = corner data points, surface passes through the corner data *)
Theorem C11_approximate_surface_corners_unconditional :
  forall (pts : list (list R)) (su sv pu pv cu cv dim : nat) (cdsU cdsV : list (list R)),
  (1 <= pu)%nat -> (pu + 2 <= cu)%nat -> (cu < su)%nat -> (1 <= pv)%nat -> (pv + 2 <= cv)%nat -> (cv < sv)%nat ->
  rect (su * sv) dim pts -> cdsU <> [] -> cdsV <> [] ->
  (forall cds, In cds cdsU -> length cds = (su - 1)%nat /\ forall x, In x cds -> (0 < x)%R) ->
  (forall cds, In cds cdsV -> length cds = (sv - 1)%nat /\ forall x, In x cds -> (0 < x)%R) ->
  exists uk vl P, compute_params_surface Rops su sv cdsU cdsV = Ok (uk, vl) /\
    let kvu := compute_knot_vector2 Rops pu su cu uk in let kvv := compute_knot_vector2 Rops pv sv cv vl in
    approximate_surface Rops pts su sv pu pv cu cv cdsU cdsV = Ok (P, kvu, kvv) /\ length P = (cu * cv)%nat /\
    nth 0 P [] = nth 0 pts [] /\
    nth (cv - 1) P [] = nth (sv - 1) pts [] /\
    nth (cv * (cu - 1)) P [] = nth (sv * (su - 1)) pts [] /\
    nth (cv - 1 + cv * (cu - 1)) P [] = nth (sv - 1 + sv * (su - 1)) pts [] /\
    forall d, (d < dim)%nat ->
      nth d (surface_point Rops dim pu pv kvu kvv cu cv P 0%R 0%R) 0%R = get2 Rops pts 0 d /\
      nth d (surface_point Rops dim pu pv kvu kvv cu cv P 0%R 1%R) 0%R = get2 Rops pts (sv - 1) d /\
      nth d (surface_point Rops dim pu pv kvu kvv cu cv P 1%R 0%R) 0%R = get2 Rops pts (sv * (su - 1)) d /\
      nth d (surface_point Rops dim pu pv kvu kvv cu cv P 1%R 1%R) 0%R = get2 Rops pts (sv - 1 + sv * (su - 1)) d.
Proof. exact approximate_surface_corners_unconditional. Qed.
Print Assumptions C11_approximate_surface_corners_unconditional.

(* [G] executable instance of the normal equations *)
Theorem C11_approx_normal_pivots_nonzero_Q : forall (p r c : nat) (uk : list Q), (1 <= p)%nat -> (p + 2 <= c)%nat -> (c < r)%nat ->
  length uk = r -> (nth 0 uk 0 == 0)%Q -> (nth (r - 1) uk 0 == 1)%Q -> (forall i, (S i < r)%nat -> (nth i uk 0 < nth (S i) uk 0)%Q) ->
  forall i, (i < c - 2)%nat ->
    let Nm := approx_N Qops p c (compute_knot_vector2 Qops p r c uk) uk r in
    ~ (get2 Qops (snd (doolittle Qops (mmul Qops (transpose Qops Nm) Nm))) i i == 0)%Q.
Proof. exact approx_normal_pivots_nonzero_Q. Qed.
Print Assumptions C11_approx_normal_pivots_nonzero_Q.

(* ====================== TRANSLATOR TIE (Proofs/GenTie*.v) ======================
   coq/Gen/*.v is the Gallina rendering of the Python source produced by harness/pytrans.py; every run of ./check regenerates it
   from /repo and compares it function by function with the committed text (evidence: translator_tie).  The theorems below say
   that the hand-written model (the subject of the theorems above) computes, for ALL inputs satisfying the stated
   well-formedness, exactly what the translated source computes.  This block stays LAST in the file: its imports shadow
   model names. *)
From Coq Require Import List QArith Reals Qreals Lia Lra Arith Bool ZArith.
From NV Require Import Scalar.Ops Model.Common Model.Basis Model.Knots Model.KnotIns Model.KnotRem Model.LinAlg Model.Degree
  Gen.Prelude Gen.LinalgInternal Gen.Linalg Gen.Knotvector Gen.Helpers
  Proofs.GenTieSums Proofs.GenTieLinAlg Proofs.GenTieSubst Proofs.GenTieLU Proofs.GenTieLUSolve Proofs.GenTieKnotRem Proofs.GenTieDegree
  Proofs.GenTieLib Proofs.GenTieKnots Proofs.GenTieSpan Proofs.GenTieBasis Proofs.GenTieBasisOne
  Proofs.GenTieDersOne Proofs.GenTieDersLib Proofs.GenTieDers Proofs.GenTieKnotIns.
Local Open Scope nat_scope.
From NV Require Import Gen.PreludeExt Gen.LinalgMat Proofs.GenTieMat Proofs.GenTieMatSolve Proofs.GenTieBinom.
From NV Require Import Gen.PreludeExt Gen.HelpersB Proofs.GenTieKnotRemove.
From NV Require Import Gen.HelpersB Proofs.GenTieElev.
From NV Require Import Model.Geom2D Model.Voxel Gen.PreludeExt Gen.LinalgGeom Gen.Voxelize Proofs.GenTieGeom Proofs.GenTieVoxel
  Proofs.GenTieHull.
From NV Require Import Model.Hull Gen.Utilities Proofs.GenTieBBox.

From NV Require Import Model.Fit Gen.Fitting Proofs.GenTieFit.

(* [G] fitting.compute_knot_vector; wf: num_points <= len(params) + 1 (the parameters read are params[1 .. num_points-2]) *)
Theorem C11_gen_compute_knot_vector_R : forall (p n : nat) (params : list R), n <= S (length params) ->
  Fitting.compute_knot_vector Rops (Z.of_nat p) (Z.of_nat n) params = GOk (Fit.compute_knot_vector Rops p n params).
Proof. exact compute_knot_vector_tie_R. Qed.
Print Assumptions C11_gen_compute_knot_vector_R.
Theorem C11_gen_compute_knot_vector_Q : forall (p n : nat) (params : list Q), n <= S (length params) ->
  Fitting.compute_knot_vector Qops (Z.of_nat p) (Z.of_nat n) params = GOk (Fit.compute_knot_vector Qops p n params).
Proof. exact compute_knot_vector_tie_Q. Qed.
Print Assumptions C11_gen_compute_knot_vector_Q.

(* [G] fitting.compute_knot_vector2; d = float(num_dpts) / float(num_cpts - degree) is carried as the exact rational;
   wf: degree < num_cpts, num_cpts - degree <= num_dpts <= len(params) *)
Theorem C11_gen_compute_knot_vector2_R : forall (p r c : nat) (params : list R),
  p < c -> c - p <= r -> r <= length params ->
  Fitting.compute_knot_vector2 Rops (Z.of_nat p) (Z.of_nat r) (Z.of_nat c) params = GOk (Fit.compute_knot_vector2 Rops p r c params).
Proof. exact compute_knot_vector2_tie_R. Qed.
Print Assumptions C11_gen_compute_knot_vector2_R.
Theorem C11_gen_compute_knot_vector2_Q : forall (p r c : nat) (params : list Q),
  p < c -> c - p <= r -> r <= length params ->
  Fitting.compute_knot_vector2 Qops (Z.of_nat p) (Z.of_nat r) (Z.of_nat c) params = GOk (Fit.compute_knot_vector2 Qops p r c params).
Proof. exact compute_knot_vector2_tie_Q. Qed.
Print Assumptions C11_gen_compute_knot_vector2_Q.

(* [G] fitting.compute_params_curve (centripetal = False): linalg.point_distance is the uninterpreted argument `dist` of the
   generated function; for EVERY total dist (dm = its value) the source computes what the model computes from the chords
   dm(points[i+1], points[i]); ZeroDivisionError (chords sum to 0) <-> Crash; wf: at least one point *)
Theorem C11_gen_compute_params_curve_R : forall (pts : list (list R)) (dist : list R -> list R -> gres R) (dm : list R -> list R -> R),
  (forall a b, dist a b = GOk (dm a b)) -> pts <> [] ->
  Fitting.compute_params_curve__centripetal_false Rops pts dist =
  res_to_gres (fun x => x) ValueError ZeroDivisionError
    (Fit.compute_params_curve Rops (map (fun i => dm (nth (S i) pts []) (nth i pts [])) (seq O (length pts - 1)))).
Proof. exact compute_params_curve_tie_R. Qed.
Print Assumptions C11_gen_compute_params_curve_R.
Theorem C11_gen_compute_params_curve_Q : forall (pts : list (list Q)) (dist : list Q -> list Q -> gres Q) (dm : list Q -> list Q -> Q),
  (forall a b, dist a b = GOk (dm a b)) -> pts <> [] ->
  Fitting.compute_params_curve__centripetal_false Qops pts dist =
  res_to_gres (fun x => x) ValueError ZeroDivisionError
    (Fit.compute_params_curve Qops (map (fun i => dm (nth (S i) pts []) (nth i pts [])) (seq O (length pts - 1)))).
Proof. exact compute_params_curve_tie_Q. Qed.
Print Assumptions C11_gen_compute_params_curve_Q.

Example C11_gen_nonvacuous :
  Fitting.compute_knot_vector Qops 3 6 [0; 1#8; 3#8; 1#2; 3#4; 1]%Q = GOk [0; 0; 0; 0; 1#3; 13#24; 1; 1; 1; 1]%Q
  /\ Fitting.compute_knot_vector2 Qops 2 5 4 [0; 1#8; 3#8; 1#2; 3#4; 1]%Q = GOk [0; 0; 0; 1#4; 1; 1; 1]%Q
  /\ Fit.compute_knot_vector2 Qops 2 5 4 [0; 1#8; 3#8; 1#2; 3#4; 1]%Q = [0; 0; 0; 1#4; 1; 1; 1]%Q.
Proof. repeat split; vm_compute; reflexivity. Qed.

From NV Require Import Model.Derivs Proofs.GenTieDerivCpts.
From NV Require Import Proofs.GenTieArr4 Proofs.GenTieDerivSurf.
From NV Require Import Model.KnotRefine Proofs.GenTieRefine.
From NV Require Import Model.Eval Gen.Evaluators Proofs.GenTieEvalLib Proofs.GenTieEvalCurve Proofs.GenTieEvalSurf Proofs.GenTieEvalVol.
From NV Require Import Model.Derivs Gen.HelpersC Proofs.GenTieBinom Proofs.GenTieBasisAll Proofs.GenTieEvalDerivCurve Proofs.GenTieEvalDerivCurve2.
From NV Require Import Proofs.GenTieEvalDerivSurf Proofs.GenTieEvalDerivSurfRat Proofs.GenTieEvalDerivSurf2.
From NV Require Import Model.Weights Gen.Compatibility Proofs.GenTieCompat.
From NV Require Import Model.Layout Gen.Compatibility Proofs.GenTieFlip.
From NV Require Import Model.Layout Model.Voxel Model.Hull Gen.OperationsInternal Proofs.GenTieFindCtrlpts.
From NV Require Import Model.Layout Model.Hull Gen.OperationsInternal Proofs.GenTieFindCtrlpts.
From NV Require Import Model.InsertKnot Gen.UtilitiesB Proofs.GenTieCheckParams.

From NV Require Import Model.Fit Gen.PreludeExt2 Gen.Fitting Gen.FittingB Proofs.GenTieFit Proofs.GenTieFitB.

(* [G] fitting._build_coeff_matrix; wf: degree < number of data points n <= len(params), n + degree <= len(knotvector) *)
Theorem C11_gen_build_coeff_matrix_R : forall (p : nat) (kv params : list R) (pts : list (list R)),
  p < length pts -> length pts <= length params -> length pts + p <= length kv ->
  FittingB._build_coeff_matrix Rops (Z.of_nat p) kv params pts = GOk (Fit.build_coeff_matrix Rops p kv params (length pts)).
Proof. exact build_coeff_matrix_tie_R. Qed.
Print Assumptions C11_gen_build_coeff_matrix_R.
Theorem C11_gen_build_coeff_matrix_Q : forall (p : nat) (kv params : list Q) (pts : list (list Q)),
  p < length pts -> length pts <= length params -> length pts + p <= length kv ->
  FittingB._build_coeff_matrix Qops (Z.of_nat p) kv params pts = GOk (Fit.build_coeff_matrix Qops p kv params (length pts)).
Proof. exact build_coeff_matrix_tie_Q. Qed.
Print Assumptions C11_gen_build_coeff_matrix_Q.

(* [G] fitting.interpolate_curve (centripetal = False), the numerical part: parameters -> knot vector -> collocation matrix -> lu_solve.
   The result object (curve = BSpline.Curve(); curve.degree = ..; curve.ctrlpts = ..; curve.knotvector = ..) is the record curvedata of the
   values assigned.  dist = linalg.point_distance is uninterpreted (any total function, dm = its value); chords_of dm pts = the chord
   lengths the model takes as input.  Solvability hypothesis: no zero on the diagonals of the LU factors of the collocation matrix (as for
   lu_solve).  ZeroDivisionError of compute_params_curve (the chords sum to 0) <-> Crash *)
Theorem C11_gen_interpolate_curve_R : forall (pts : list (list R)) (p : nat) (dist : list R -> list R -> gres R) (dm : list R -> list R -> R),
  (forall a b, dist a b = GOk (dm a b)) -> pts <> [] -> p < length pts ->
  (forall r, In r pts -> length (hd [] pts) <= length r) ->
  (forall uk L U, Fit.compute_params_curve Rops (chords_of dm pts) = Ok uk ->
     LinAlg.lu_decomposition Rops (Fit.build_coeff_matrix Rops p (Fit.compute_knot_vector Rops p (length pts) uk) uk (length pts)) = Ok (L, U) ->
     forall i, i < length pts -> i < length (nth i L []) /\ oeqb Rops (get2 Rops L i i) (o0 Rops) = false
                               /\ length pts <= length (nth i U []) /\ oeqb Rops (get2 Rops U i i) (o0 Rops) = false) ->
  FittingB.interpolate_curve__centripetal_false Rops pts (Z.of_nat p) dist =
  res_to_gres (fun Pkv => mk_curvedata (Z.of_nat p) (fst Pkv) (snd Pkv)) ValueError ZeroDivisionError
    (Fit.interpolate_curve Rops pts p (chords_of dm pts)).
Proof. exact interpolate_curve_tie_R. Qed.
Print Assumptions C11_gen_interpolate_curve_R.
Theorem C11_gen_interpolate_curve_Q : forall (pts : list (list Q)) (p : nat) (dist : list Q -> list Q -> gres Q) (dm : list Q -> list Q -> Q),
  (forall a b, dist a b = GOk (dm a b)) -> pts <> [] -> p < length pts ->
  (forall r, In r pts -> length (hd [] pts) <= length r) ->
  (forall uk L U, Fit.compute_params_curve Qops (chords_of dm pts) = Ok uk ->
     LinAlg.lu_decomposition Qops (Fit.build_coeff_matrix Qops p (Fit.compute_knot_vector Qops p (length pts) uk) uk (length pts)) = Ok (L, U) ->
     forall i, i < length pts -> i < length (nth i L []) /\ oeqb Qops (get2 Qops L i i) (o0 Qops) = false
                               /\ length pts <= length (nth i U []) /\ oeqb Qops (get2 Qops U i i) (o0 Qops) = false) ->
  FittingB.interpolate_curve__centripetal_false Qops pts (Z.of_nat p) dist =
  res_to_gres (fun Pkv => mk_curvedata (Z.of_nat p) (fst Pkv) (snd Pkv)) ValueError ZeroDivisionError
    (Fit.interpolate_curve Qops pts p (chords_of dm pts)).
Proof. exact interpolate_curve_tie_Q. Qed.
Print Assumptions C11_gen_interpolate_curve_Q.
Example C11_gen_interpolate_nonvacuous :
  FittingB.interpolate_curve__centripetal_false Qops exIP 2 (fun a b => GOk (exDm a b)) =
    GOk (mk_curvedata 2 [[0; 0]; [3 # 4; 66 # 35]; [2; -13 # 20]; [13 # 4; 116 # 35]; [4; 1]] [0; 0; 0; 3 # 8; 5 # 8; 1; 1; 1])%Q
  /\ Fit.interpolate_curve Qops exIP 2 (chords_of exDm exIP) =
    Ok ([[0; 0]; [3 # 4; 66 # 35]; [2; -13 # 20]; [13 # 4; 116 # 35]; [4; 1]], [0; 0; 0; 3 # 8; 5 # 8; 1; 1; 1])%Q.
Proof. split; vm_compute; reflexivity. Qed.



From NV Require Import Proofs.GenTieFitSurf.

(* [G] fitting.compute_params_surface (centripetal = False); wf: size_u, size_v >= 1, size_u * size_v <= len(points); ZeroDivisionError <-> Crash *)
Theorem C11_gen_compute_params_surface_R : forall (pts : list (list R)) (su sv : nat) (dist : list R -> list R -> gres R) (dm : list R -> list R -> R),
  (forall a b, dist a b = GOk (dm a b)) -> 1 <= su -> 1 <= sv -> su * sv <= length pts ->
  FittingB.compute_params_surface__centripetal_false Rops pts (Z.of_nat su) (Z.of_nat sv) dist =
  res_to_gres (fun x => x) ValueError ZeroDivisionError (Fit.compute_params_surface Rops su sv (cdsU dm pts su sv) (cdsV dm pts su sv)).
Proof. exact compute_params_surface_tie_R. Qed.
Print Assumptions C11_gen_compute_params_surface_R.
Theorem C11_gen_compute_params_surface_Q : forall (pts : list (list Q)) (su sv : nat) (dist : list Q -> list Q -> gres Q) (dm : list Q -> list Q -> Q),
  (forall a b, dist a b = GOk (dm a b)) -> 1 <= su -> 1 <= sv -> su * sv <= length pts ->
  FittingB.compute_params_surface__centripetal_false Qops pts (Z.of_nat su) (Z.of_nat sv) dist =
  res_to_gres (fun x => x) ValueError ZeroDivisionError (Fit.compute_params_surface Qops su sv (cdsU dm pts su sv) (cdsV dm pts su sv)).
Proof. exact compute_params_surface_tie_Q. Qed.
Print Assumptions C11_gen_compute_params_surface_Q.

(* [G] fitting.interpolate_surface (centripetal = False), the numerical part (two passes of curve interpolation); the result object is the
   record surfdata of the values assigned to the new BSpline.Surface.  Solvability: no zero on the diagonals of the LU factors of the two
   collocation matrices *)
Theorem C11_gen_interpolate_surface_R : forall (pts : list (list R)) (su sv pu pv d : nat) (dist : list R -> list R -> gres R) (dm : list R -> list R -> R),
  (forall a b, dist a b = GOk (dm a b)) -> pu < su -> pv < sv -> su * sv <= length pts ->
  (forall i, i < su * sv -> length (nth i pts []) = d) ->
  (forall uk vl, Fit.compute_params_surface Rops su sv (cdsU dm pts su sv) (cdsV dm pts su sv) = Ok (uk, vl) ->
     (forall L U, LinAlg.lu_decomposition Rops (Fit.build_coeff_matrix Rops pu (Fit.compute_knot_vector Rops pu su uk) uk su) = Ok (L, U) ->
        forall i, i < su -> i < length (nth i L []) /\ oeqb Rops (get2 Rops L i i) (o0 Rops) = false
                           /\ su <= length (nth i U []) /\ oeqb Rops (get2 Rops U i i) (o0 Rops) = false) /\
     (forall L U, LinAlg.lu_decomposition Rops (Fit.build_coeff_matrix Rops pv (Fit.compute_knot_vector Rops pv sv vl) vl sv) = Ok (L, U) ->
        forall i, i < sv -> i < length (nth i L []) /\ oeqb Rops (get2 Rops L i i) (o0 Rops) = false
                           /\ sv <= length (nth i U []) /\ oeqb Rops (get2 Rops U i i) (o0 Rops) = false)) ->
  FittingB.interpolate_surface__centripetal_false Rops pts (Z.of_nat su) (Z.of_nat sv) (Z.of_nat pu) (Z.of_nat pv) dist =
  res_to_gres (fun r => mk_surfdata (Z.of_nat pu) (Z.of_nat pv) (Z.of_nat su) (Z.of_nat sv) (fst (fst r)) (snd (fst r)) (snd r))
    ValueError ZeroDivisionError (Fit.interpolate_surface Rops pts su sv pu pv (cdsU dm pts su sv) (cdsV dm pts su sv)).
Proof. exact interpolate_surface_tie_R. Qed.
Print Assumptions C11_gen_interpolate_surface_R.
Theorem C11_gen_interpolate_surface_Q : forall (pts : list (list Q)) (su sv pu pv d : nat) (dist : list Q -> list Q -> gres Q) (dm : list Q -> list Q -> Q),
  (forall a b, dist a b = GOk (dm a b)) -> pu < su -> pv < sv -> su * sv <= length pts ->
  (forall i, i < su * sv -> length (nth i pts []) = d) ->
  (forall uk vl, Fit.compute_params_surface Qops su sv (cdsU dm pts su sv) (cdsV dm pts su sv) = Ok (uk, vl) ->
     (forall L U, LinAlg.lu_decomposition Qops (Fit.build_coeff_matrix Qops pu (Fit.compute_knot_vector Qops pu su uk) uk su) = Ok (L, U) ->
        forall i, i < su -> i < length (nth i L []) /\ oeqb Qops (get2 Qops L i i) (o0 Qops) = false
                           /\ su <= length (nth i U []) /\ oeqb Qops (get2 Qops U i i) (o0 Qops) = false) /\
     (forall L U, LinAlg.lu_decomposition Qops (Fit.build_coeff_matrix Qops pv (Fit.compute_knot_vector Qops pv sv vl) vl sv) = Ok (L, U) ->
        forall i, i < sv -> i < length (nth i L []) /\ oeqb Qops (get2 Qops L i i) (o0 Qops) = false
                           /\ sv <= length (nth i U []) /\ oeqb Qops (get2 Qops U i i) (o0 Qops) = false)) ->
  FittingB.interpolate_surface__centripetal_false Qops pts (Z.of_nat su) (Z.of_nat sv) (Z.of_nat pu) (Z.of_nat pv) dist =
  res_to_gres (fun r => mk_surfdata (Z.of_nat pu) (Z.of_nat pv) (Z.of_nat su) (Z.of_nat sv) (fst (fst r)) (snd (fst r)) (snd r))
    ValueError ZeroDivisionError (Fit.interpolate_surface Qops pts su sv pu pv (cdsU dm pts su sv) (cdsV dm pts su sv)).
Proof. exact interpolate_surface_tie_Q. Qed.
Print Assumptions C11_gen_interpolate_surface_Q.



From NV Require Import Gen.FittingC Proofs.GenTieApprox.

(* [G] fitting.approximate_curve (centripetal = False), the numerical part.  dist = linalg.point_distance uninterpreted (any total function).
   wf: >= 3 data points, >= 3 control points, degree < c, c - degree <= number of data points, all points have d coordinates.
   Solvability: no zero on the diagonals of the LU factors of N^T N.  ZeroDivisionError of compute_params_curve <-> Crash *)
Theorem C11_gen_approximate_curve_R : forall (pts : list (list R)) (p c d : nat) (dist : list R -> list R -> gres R) (dm : list R -> list R -> R),
  (forall a b, dist a b = GOk (dm a b)) -> 3 <= length pts -> 3 <= c -> p < c -> c - p <= length pts ->
  (forall pt, In pt pts -> length pt = d) ->
  (forall uk Lm Um, Fit.compute_params_curve Rops (chords_of dm pts) = Ok uk ->
     let Nm := Fit.approx_N Rops p c (Fit.compute_knot_vector2 Rops p (length pts) c uk) uk (length pts) in
     LinAlg.lu_decomposition Rops (LinAlg.mmul Rops (LinAlg.transpose Rops Nm) Nm) = Ok (Lm, Um) ->
     forall i, i < c - 2 -> i < length (nth i Lm []) /\ oeqb Rops (get2 Rops Lm i i) (o0 Rops) = false
                             /\ c - 2 <= length (nth i Um []) /\ oeqb Rops (get2 Rops Um i i) (o0 Rops) = false) ->
  FittingC.approximate_curve__centripetal_false Rops pts (Z.of_nat p) (Z.of_nat c) dist =
  res_to_gres (fun Pkv => mk_curvedata2 (Z.of_nat p) (fst Pkv) (snd Pkv)) ValueError ZeroDivisionError
    (Fit.approximate_curve Rops pts p c (chords_of dm pts)).
Proof. exact approximate_curve_tie_R. Qed.
Print Assumptions C11_gen_approximate_curve_R.
Theorem C11_gen_approximate_curve_Q : forall (pts : list (list Q)) (p c d : nat) (dist : list Q -> list Q -> gres Q) (dm : list Q -> list Q -> Q),
  (forall a b, dist a b = GOk (dm a b)) -> 3 <= length pts -> 3 <= c -> p < c -> c - p <= length pts ->
  (forall pt, In pt pts -> length pt = d) ->
  (forall uk Lm Um, Fit.compute_params_curve Qops (chords_of dm pts) = Ok uk ->
     let Nm := Fit.approx_N Qops p c (Fit.compute_knot_vector2 Qops p (length pts) c uk) uk (length pts) in
     LinAlg.lu_decomposition Qops (LinAlg.mmul Qops (LinAlg.transpose Qops Nm) Nm) = Ok (Lm, Um) ->
     forall i, i < c - 2 -> i < length (nth i Lm []) /\ oeqb Qops (get2 Qops Lm i i) (o0 Qops) = false
                             /\ c - 2 <= length (nth i Um []) /\ oeqb Qops (get2 Qops Um i i) (o0 Qops) = false) ->
  FittingC.approximate_curve__centripetal_false Qops pts (Z.of_nat p) (Z.of_nat c) dist =
  res_to_gres (fun Pkv => mk_curvedata2 (Z.of_nat p) (fst Pkv) (snd Pkv)) ValueError ZeroDivisionError
    (Fit.approximate_curve Qops pts p c (chords_of dm pts)).
Proof. exact approximate_curve_tie_Q. Qed.
Print Assumptions C11_gen_approximate_curve_Q.

