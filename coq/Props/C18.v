(* C18 - shapes stay inside the hull of their control points.
   "For positive weights every evaluated point of a curve, surface or volume lies in the convex hull of the degree+1
    (per direction) control points active on its knot interval, hence inside the reported bounding box of the control
    net, and clamped shapes start and end at their first and last control points.  The approximate length of a
    non-rational curve is never less than its end-to-end chord nor more than its control-polygon length."
   Convex hull membership is stated through separating directions: for EVERY direction d (more generally every
   linear functional) and all bounds lo, hi that hold on the active control points, they hold on the evaluated point;
   taking lo = min_r d.P_r and hi = max_r d.P_r gives  min_r d.P_r <= d.C(u) <= max_r d.P_r.
   This file only states the theorems; proofs are in Proofs/LinComb.v, HomogR.v, HullR.v, HullR2.v, HullLen.v. *)
From Coq Require Import List Reals Lra Lia Arith Bool QArith Qreals.
From NV Require Import Scalar.Ops Model.Common Model.Basis Model.Knots Model.Eval Model.Homog Model.Hull
  Proofs.BasisR Proofs.LinComb Proofs.HomogR Proofs.HullR Proofs.HullR2 Proofs.HullLen Transfer.BasisT Transfer.HullT.
From NV Require Import Proofs.HullPolyline.
Import ListNotations.
Open Scope R_scope.

(* [G] curves: all degrees, all sorted knot vectors (any multiplicities), every parameter of the closed domain
   [U_p, U_n] (the last span must be non-empty: U_{n-1} < U_n), every dimension, every direction d.
   The active control points are what operations.find_ctrlpts returns. *)
Theorem C18_curve_point_in_hull : forall (dim p : nat) (U : list R) (P : list (list R)) (u : R) (d : list R) (lo hi : R),
  sortedR U -> (p < length P)%nat -> (length P + p < length U)%nat -> Forall (fun q => length q = dim) P ->
  in_domain p U (length P) u -> length d = dim ->
  Forall (fun q => lo <= vdot Rops d q <= hi) (find_ctrlpts_curve Rops p U P u) ->
  lo <= vdot Rops d (curve_point Rops dim p U P u) <= hi.
Proof. intros dim p U P u d lo hi Hs Hn HL Hd Hu. exact (curve_point_in_hull dim p U P u Hs Hn HL Hd Hu d lo hi). Qed.
Print Assumptions C18_curve_point_in_hull.

(* [G] the same statement about the EXECUTABLE rational instance (what the correspondence check runs), by parametricity *)
Theorem C18_curve_point_in_hull_Q : forall (dim p : nat) (U : list Q) (P : list (list Q)) (u : Q) (d : list Q) (lo hi : Q),
  sortedQ U -> (p < length P)%nat -> (length P + p < length U)%nat -> Forall (fun q => length q = dim) P ->
  (kn Qops U p <= u)%Q -> (u <= kn Qops U (length P))%Q -> (kn Qops U (length P - 1) < kn Qops U (length P))%Q ->
  length d = dim ->
  Forall (fun q => (lo <= vdot Qops d q)%Q /\ (vdot Qops d q <= hi)%Q) (find_ctrlpts_curve Qops p U P u) ->
  (lo <= vdot Qops d (curve_point Qops dim p U P u))%Q /\ (vdot Qops d (curve_point Qops dim p U P u) <= hi)%Q.
Proof. exact curve_point_in_hull_Q. Qed.
Print Assumptions C18_curve_point_in_hull_Q.

(* [G] surfaces: the (pu+1)(pv+1) active control points *)
Theorem C18_surface_point_in_hull : forall (dim pu pv su sv : nat) (Uu Uv : list R) (P : list (list R)) (u v : R) (d : list R) (lo hi : R),
  sortedR Uu -> sortedR Uv -> (pu < su)%nat -> (pv < sv)%nat -> (su + pu < length Uu)%nat -> (sv + pv < length Uv)%nat ->
  length P = (su * sv)%nat -> Forall (fun q => length q = dim) P -> in_domain pu Uu su u -> in_domain pv Uv sv v ->
  length d = dim ->
  Forall (Forall (fun q => lo <= vdot Rops d q <= hi)) (find_ctrlpts_surface Rops pu pv Uu Uv su sv P u v) ->
  lo <= vdot Rops d (surface_point Rops dim pu pv Uu Uv su sv P u v) <= hi.
Proof.
  intros dim pu pv su sv Uu Uv P u v d lo hi H1 H2 H3 H4 H5 H6 H7 H8 H9 H10.
  exact (surface_point_in_hull dim pu pv su sv Uu Uv P u v H1 H2 H3 H4 H5 H6 H7 H8 H9 H10 d lo hi).
Qed.
Print Assumptions C18_surface_point_in_hull.

(* [G] volumes: the (pu+1)(pv+1)(pw+1) active control points *)
Theorem C18_volume_point_in_hull : forall (dim pu pv pw su sv sw : nat) (Uu Uv Uw : list R) (P : list (list R)) (u v w : R) (d : list R) (lo hi : R),
  sortedR Uu -> sortedR Uv -> sortedR Uw -> (pu < su)%nat -> (pv < sv)%nat -> (pw < sw)%nat ->
  (su + pu < length Uu)%nat -> (sv + pv < length Uv)%nat -> (sw + pw < length Uw)%nat ->
  length P = (su * sv * sw)%nat -> Forall (fun q => length q = dim) P ->
  in_domain pu Uu su u -> in_domain pv Uv sv v -> in_domain pw Uw sw w -> length d = dim ->
  Forall (fun q => lo <= vdot Rops d q <= hi)
    (active_volume pu pv pw su sv P (find_span_linear Rops pu Uu su u) (find_span_linear Rops pv Uv sv v) (find_span_linear Rops pw Uw sw w)) ->
  lo <= vdot Rops d (volume_point Rops dim pu pv pw Uu Uv Uw su sv sw P u v w) <= hi.
Proof.
  intros dim pu pv pw su sv sw Uu Uv Uw P u v w d lo hi H1 H2 H3 H4 H5 H6 H7 H8 H9 H10 H11 H12 H13 H14.
  exact (volume_point_in_hull dim pu pv pw su sv sw Uu Uv Uw P u v w H1 H2 H3 H4 H5 H6 H7 H8 H9 H10 H11 H12 H13 H14 d lo hi).
Qed.
Print Assumptions C18_volume_point_in_hull.

(* [G] rational shapes with positive weights: homogeneous evaluation of the weighted points followed by the
   projection lies in the hull of the UNWEIGHTED active control points *)
Theorem C18_rational_curve_point_in_hull : forall (dim : nat) (P : list (list R)) (W : list R) (p : nat) (U : list R) (u : R) (d : list R) (lo hi : R),
  length W = length P -> Forall (fun q => length q = dim) P -> Forall (fun w => 0 < w) W ->
  sortedR U -> (p < length P)%nat -> (length P + p < length U)%nat -> in_domain p U (length P) u -> length d = dim ->
  Forall (fun q => lo <= vdot Rops d q <= hi) (find_ctrlpts_curve Rops p U P u) ->
  lo <= vdot Rops d (project Rops (curve_point Rops (S dim) p U (hom_combine Rops P W) u)) <= hi.
Proof.
  intros dim P W p U u d lo hi H1 H2 H3 H4 H5 H6 H7.
  exact (rational_curve_point_in_hull dim P W H1 H2 H3 p U u H4 H5 H6 H7 d lo hi).
Qed.
Print Assumptions C18_rational_curve_point_in_hull.

Theorem C18_rational_surface_point_in_hull : forall (dim : nat) (P : list (list R)) (W : list R) (pu pv su sv : nat) (Uu Uv : list R) (u v : R) (d : list R) (lo hi : R),
  length W = length P -> Forall (fun q => length q = dim) P -> Forall (fun w => 0 < w) W ->
  sortedR Uu -> sortedR Uv -> (pu < su)%nat -> (pv < sv)%nat -> (su + pu < length Uu)%nat -> (sv + pv < length Uv)%nat ->
  length P = (su * sv)%nat -> in_domain pu Uu su u -> in_domain pv Uv sv v -> length d = dim ->
  Forall (Forall (fun q => lo <= vdot Rops d q <= hi)) (find_ctrlpts_surface Rops pu pv Uu Uv su sv P u v) ->
  lo <= vdot Rops d (project Rops (surface_point Rops (S dim) pu pv Uu Uv su sv (hom_combine Rops P W) u v)) <= hi.
Proof.
  intros dim P W pu pv su sv Uu Uv u v d lo hi H1 H2 H3 H4 H5 H6 H7 H8 H9 H10 H11 H12.
  exact (rational_surface_point_in_hull dim P W H1 H2 H3 pu pv su sv Uu Uv u v H4 H5 H6 H7 H8 H9 H10 H11 H12 d lo hi).
Qed.
Print Assumptions C18_rational_surface_point_in_hull.

Theorem C18_rational_volume_point_in_hull : forall (dim : nat) (P : list (list R)) (W : list R) (pu pv pw su sv sw : nat) (Uu Uv Uw : list R) (u v w : R) (d : list R) (lo hi : R),
  length W = length P -> Forall (fun q => length q = dim) P -> Forall (fun w => 0 < w) W ->
  sortedR Uu -> sortedR Uv -> sortedR Uw -> (pu < su)%nat -> (pv < sv)%nat -> (pw < sw)%nat ->
  (su + pu < length Uu)%nat -> (sv + pv < length Uv)%nat -> (sw + pw < length Uw)%nat ->
  length P = (su * sv * sw)%nat -> in_domain pu Uu su u -> in_domain pv Uv sv v -> in_domain pw Uw sw w -> length d = dim ->
  Forall (fun q => lo <= vdot Rops d q <= hi)
    (active_volume pu pv pw su sv P (find_span_linear Rops pu Uu su u) (find_span_linear Rops pv Uv sv v) (find_span_linear Rops pw Uw sw w)) ->
  lo <= vdot Rops d (project Rops (volume_point Rops (S dim) pu pv pw Uu Uv Uw su sv sw (hom_combine Rops P W) u v w)) <= hi.
Proof.
  intros dim P W pu pv pw su sv sw Uu Uv Uw u v w d lo hi H1 H2 H3 H4 H5 H6 H7 H8 H9 H10 H11 H12 H13 H14 H15 H16 Hd.
  apply (rational_volume_point_hull_linfun dim P W H1 H2 H3 pu pv pw su sv sw Uu Uv Uw u v w H4 H5 H6 H7 H8 H9 H10 H11 H12 H13 H14 H15 H16).
  apply linfun_vdot. exact Hd.
Qed.
Print Assumptions C18_rational_volume_point_in_hull.

(* [G] operations.find_ctrlpts returns the degree+1 control points P[span-p .. span] of the evaluator's span, and the
   evaluated point is the basis-weighted sum of exactly these points *)
Theorem C18_find_ctrlpts_is_active_window : forall (p : nat) (U : list R) (P : list (list R)) (u : R),
  let span := find_span_linear Rops p U (length P) u in
  find_ctrlpts_curve Rops p U P u = map (fun i => pt_at P (span - p + i)) (seq 0 (S p)) /\
  length (find_ctrlpts_curve Rops p U P u) = S p /\
  curve_point Rops (length (pt_at P 0)) p U P u =
    fold_axpy (fun i => nth i (basis_function Rops p U span u) 0) (fun i => nth i (find_ctrlpts_curve Rops p U P u) []) (seq 0 (S p)) (vzero Rops (length (pt_at P 0))).
Proof. exact find_ctrlpts_curve_window. Qed.
Print Assumptions C18_find_ctrlpts_is_active_window.

(* [G] the reported bounding box is the component-wise minimum / maximum of the control points *)
Theorem C18_bbox_spec : forall (dim : nat) (pts : list (list R)) (mn mx : list R),
  Forall (fun q => length q = dim) pts -> bbox Rops pts = Ok (mn, mx) ->
  length mn = dim /\ length mx = dim /\
  (forall q c, In q pts -> nth c mn 0 <= nth c q 0 <= nth c mx 0) /\
  (forall c, (exists q, In q pts /\ nth c mn 0 = nth c q 0) /\ (exists q, In q pts /\ nth c mx 0 = nth c q 0)).
Proof. exact bbox_spec. Qed.
Print Assumptions C18_bbox_spec.

(* [G] "hence inside the reported bounding box": every coordinate of every evaluated point *)
Theorem C18_curve_point_in_bbox : forall dim p U P u mn mx,
  sortedR U -> (p < length P)%nat -> (length P + p < length U)%nat -> Forall (fun q => length q = dim) P ->
  in_domain p U (length P) u -> bbox Rops P = Ok (mn, mx) ->
  forall c, nth c mn 0 <= nth c (curve_point Rops dim p U P u) 0 <= nth c mx 0.
Proof. exact curve_point_in_bbox. Qed.
Print Assumptions C18_curve_point_in_bbox.

Theorem C18_rational_curve_point_in_bbox : forall dim p U P W u mn mx,
  sortedR U -> (p < length P)%nat -> (length P + p < length U)%nat -> Forall (fun q => length q = dim) P ->
  length W = length P -> Forall (fun w => 0 < w) W ->
  in_domain p U (length P) u -> bbox Rops P = Ok (mn, mx) ->
  forall c, nth c mn 0 <= nth c (project Rops (curve_point Rops (S dim) p U (hom_combine Rops P W) u)) 0 <= nth c mx 0.
Proof. exact rational_curve_point_in_bbox. Qed.
Print Assumptions C18_rational_curve_point_in_bbox.

Theorem C18_surface_point_in_bbox : forall dim pu pv su sv Uu Uv P u v mn mx,
  sortedR Uu -> sortedR Uv -> (pu < su)%nat -> (pv < sv)%nat -> (su + pu < length Uu)%nat -> (sv + pv < length Uv)%nat ->
  length P = (su * sv)%nat -> Forall (fun q => length q = dim) P -> in_domain pu Uu su u -> in_domain pv Uv sv v ->
  bbox Rops P = Ok (mn, mx) ->
  forall c, nth c mn 0 <= nth c (surface_point Rops dim pu pv Uu Uv su sv P u v) 0 <= nth c mx 0.
Proof. exact surface_point_in_bbox. Qed.
Print Assumptions C18_surface_point_in_bbox.

Theorem C18_volume_point_in_bbox : forall dim pu pv pw su sv sw Uu Uv Uw P u v w mn mx,
  sortedR Uu -> sortedR Uv -> sortedR Uw -> (pu < su)%nat -> (pv < sv)%nat -> (pw < sw)%nat ->
  (su + pu < length Uu)%nat -> (sv + pv < length Uv)%nat -> (sw + pw < length Uw)%nat ->
  length P = (su * sv * sw)%nat -> Forall (fun q => length q = dim) P ->
  in_domain pu Uu su u -> in_domain pv Uv sv v -> in_domain pw Uw sw w ->
  bbox Rops P = Ok (mn, mx) ->
  forall c, nth c mn 0 <= nth c (volume_point Rops dim pu pv pw Uu Uv Uw su sv sw P u v w) 0 <= nth c mx 0.
Proof. exact volume_point_in_bbox. Qed.
Print Assumptions C18_volume_point_in_bbox.

(* [G] clamped curves start at the first and end at the last control point.
   clamped_start: U_1 = ... = U_p < U_{p+1};  clamped_end: U_{n-1} < U_n = ... = U_{n+p-1}  (n = number of control points) *)
Theorem C18_clamped_curve_endpoints : forall (dim p : nat) (U : list R) (P : list (list R)),
  sortedR U -> (p < length P)%nat -> (length P + p < length U)%nat -> Forall (fun q => length q = dim) P ->
  (clamped_start p U -> curve_point Rops dim p U P (knR U p) = pt_at P 0) /\
  (clamped_end p U (length P) -> knR U p <= knR U (length P) ->
     curve_point Rops dim p U P (knR U (length P)) = pt_at P (length P - 1)).
Proof.
  intros dim p U P Hs Hn HL Hd. split.
  - exact (curve_starts_at_first_ctrlpt dim p U P Hs Hn HL Hd).
  - exact (curve_ends_at_last_ctrlpt dim p U P Hs Hn HL Hd).
Qed.
Print Assumptions C18_clamped_curve_endpoints.

(* [G] clamped surfaces interpolate their four corner control points; shown for the first and the last one, the
   mixed corners are the other two instances of surface_corner *)
Theorem C18_clamped_surface_corners : forall (dim pu pv su sv : nat) (Uu Uv : list R) (P : list (list R)),
  sortedR Uu -> sortedR Uv -> (pu < su)%nat -> (pv < sv)%nat -> (su < length Uu)%nat -> (sv < length Uv)%nat ->
  length P = (su * sv)%nat -> Forall (fun q => length q = dim) P ->
  (clamped_start pu Uu -> clamped_start pv Uv ->
     surface_point Rops dim pu pv Uu Uv su sv P (knR Uu pu) (knR Uv pv) = pt_at P 0) /\
  (clamped_end pu Uu su -> clamped_end pv Uv sv -> knR Uu pu <= knR Uu su -> knR Uv pv <= knR Uv sv ->
     surface_point Rops dim pu pv Uu Uv su sv P (knR Uu su) (knR Uv sv) = pt_at P (su * sv - 1)).
Proof.
  intros dim pu pv su sv Uu Uv P Hsu Hsv Hnu Hnv HLu HLv HP Hd. split.
  - intros Cu Cv. rewrite (surface_corner dim pu pv su sv Uu Uv P _ _ pu pv 0 0); auto using side_start.
    f_equal. lia.
  - intros Cu Cv Du Dv. rewrite (surface_corner dim pu pv su sv Uu Uv P _ _ (su - 1) (sv - 1) pu pv); auto using side_end.
    f_equal. nia.
Qed.
Print Assumptions C18_clamped_surface_corners.

(* [G over R] the polyline through the evaluated points (what operations.length_curve sums) is never shorter than
   the end-to-end chord: triangle inequality in any dimension *)
Theorem C18_chord_le_polyline : forall (dim : nat) (pts : list (list R)) (a : list R),
  Forall (fun q => length q = dim) (a :: pts) -> dist a (last pts a) <= polyline_len (a :: pts).
Proof. exact chord_le_polyline. Qed.
Print Assumptions C18_chord_le_polyline.

(* NOT PROVED (stretch goal): the polyline through evaluated points of a non-rational curve is not longer than the
   control polygon.  Tied to the code only by the exact oracle of the check (harness/props/C18.py, family "length"). *)
Definition C18_polyline_le_control_polygon_full : Prop :=
  forall (dim p : nat) (U : list R) (P : list (list R)) (us : list R),
  sortedR U -> (p < length P)%nat -> length U = (length P + p + 1)%nat -> Forall (fun q => length q = dim) P ->
  Forall (fun u => in_domain p U (length P) u) us -> (forall i j, (i <= j < length us)%nat -> nth i us 0 <= nth j us 0) ->
  polyline_len (map (curve_point Rops dim p U P) us) <= polyline_len P.

(* ---- non-vacuity: a concrete clamped quadratic with an interior knot satisfies every hypothesis ---- *)
Example C18_hypotheses_satisfiable :
  let U := [0;0;0;1/2;1;1;1] in let P := [[0;0];[1;2];[3;1];[4;0]] in
  sortedR U /\ (2 < length P)%nat /\ (length P + 2 < length U)%nat /\ Forall (fun q => length q = 2%nat) P /\
  in_domain 2 U (length P) (1/2) /\ in_domain 2 U (length P) 1 /\ clamped_start 2 U /\ clamped_end 2 U (length P) /\
  Forall (fun q => 0 <= vdot Rops [1;0] q <= 4) (find_ctrlpts_curve Rops 2 U P (1/2)) /\
  bbox Rops P = Ok ([0;0], [4;2]).
Proof.
  cbv zeta.
  assert (Hs : sortedR [0;0;0;1/2;1;1;1]).
  { apply sortedR_adjacent. intros i Hi. cbn in Hi. do 6 (destruct i as [|i]; [cbn; lra|]). lia. }
  split; [exact Hs|]. split; [cbn; lia|]. split; [cbn; lia|]. split; [repeat constructor|].
  split; [unfold in_domain; cbn; lra|]. split; [unfold in_domain; cbn; lra|].
  split. { split; [intros j Hj; assert (j = 1 \/ j = 2)%nat as [-> | ->] by lia; cbn; lra|cbn; lra]. }
  split. { split; [intros j Hj; assert (j = 1 \/ j = 2)%nat as [-> | ->] by lia; cbn; lra|cbn; lra]. }
  split.
  - apply find_ctrlpts_curve_Forall; [exact Hs|cbn; lia|cbn; lia|unfold in_domain; cbn; lra|].
    repeat constructor; cbn; lra.
  - cbn. unfold Rltb. repeat (destruct (Rlt_dec _ _); try lra). reflexivity.
Qed.

(* ====================== round 2 (Proofs/HullPolyline.v): the polyline bound is now proved ====================== *)
(* [G over R] any degree, any sorted knot vector (clamping not needed), any dimension, any non-decreasing parameter sequence
   in the closed domain: the polyline through the evaluated points is not longer than the control polygon.  Direct proof:
   C(u) = P_0 + sum_i T_i(u) (P_i - P_{i-1}) with T_i = sum_{j>=i} N_j non-decreasing in u, 0 <= T_i <= 1. *)
Theorem C18_polyline_le_control_polygon : C18_polyline_le_control_polygon_full.
Proof. exact polyline_le_control_polygon_full. Qed.
Print Assumptions C18_polyline_le_control_polygon.

(* [G] the classical corner-cutting facts (general polygons, any dimension) *)
Theorem C18_polygon_skip_vertices : forall (dim : nat) (l' l : list (list R)),
  subl l' l -> Forall (fun q => length q = dim) l -> (polyline_len l' <= polyline_len l)%R.
Proof. exact polyline_skip. Qed.
Print Assumptions C18_polygon_skip_vertices.

(* ====================== TRANSLATOR TIE (Proofs/GenTie*.v) ======================
   coq/Gen/*.v is the Gallina rendering of the Python source produced by harness/pytrans.py; every run of ./check regenerates it
   from /repo and compares it function by function with the committed text (evidence: translator_tie).  The theorems below say
   that the hand-written model (the subject of the theorems above) computes, for ALL inputs satisfying the stated
   well-formedness, exactly what the translated source computes.  This block stays LAST in the file: its imports shadow
   model names. *)
From Coq Require Import List QArith Reals Qreals Lia Lra Arith Bool ZArith.
From NV Require Import Scalar.Ops Model.Common Model.Basis Model.Knots Model.KnotIns Model.KnotRem Model.LinAlg Model.Degree
  Gen.Prelude Gen.LinalgInternal Gen.Linalg Gen.Knotvector Gen.Helpers
  Proofs.GenTieSums Proofs.GenTieLinAlg Proofs.GenTieSubst Proofs.GenTieLU Proofs.GenTieLUSolve Proofs.GenTieKnotRem Proofs.GenTieDegree
  Proofs.GenTieLib Proofs.GenTieKnots Proofs.GenTieSpan Proofs.GenTieBasis Proofs.GenTieBasisOne
  Proofs.GenTieDersOne Proofs.GenTieDersLib Proofs.GenTieDers Proofs.GenTieKnotIns.
Local Open Scope nat_scope.
From NV Require Import Gen.PreludeExt Gen.LinalgMat Proofs.GenTieMat Proofs.GenTieMatSolve Proofs.GenTieBinom.
From NV Require Import Gen.PreludeExt Gen.HelpersB Proofs.GenTieKnotRemove.
From NV Require Import Gen.HelpersB Proofs.GenTieElev.
From NV Require Import Model.Geom2D Model.Voxel Gen.PreludeExt Gen.LinalgGeom Gen.Voxelize Proofs.GenTieGeom Proofs.GenTieVoxel
  Proofs.GenTieHull.

From NV Require Import Model.Hull Gen.Utilities Proofs.GenTieBBox.

(* [G] utilities.evaluate_bounding_box; float('inf') / float('-inf') are the last two arguments of the generated function:
   ANY scalars strictly above / below the coordinates of the first point.  IndexError (no points) <-> Crash *)
Theorem C18_gen_evaluate_bounding_box_R : forall (pts : list (list R)) (pinf ninf : R),
  (forall x, In x (hd [] pts) -> oltb Rops x pinf = true /\ oltb Rops ninf x = true) ->
  Utilities.evaluate_bounding_box Rops pts pinf ninf = res_to_gres (fun x => x) ValueError IndexError (Hull.bbox Rops pts).
Proof. exact evaluate_bounding_box_tie_R. Qed.
Print Assumptions C18_gen_evaluate_bounding_box_R.
Theorem C18_gen_evaluate_bounding_box_Q : forall (pts : list (list Q)) (pinf ninf : Q),
  (forall x, In x (hd [] pts) -> oltb Qops x pinf = true /\ oltb Qops ninf x = true) ->
  Utilities.evaluate_bounding_box Qops pts pinf ninf = res_to_gres (fun x => x) ValueError IndexError (Hull.bbox Qops pts).
Proof. exact evaluate_bounding_box_tie_Q. Qed.
Print Assumptions C18_gen_evaluate_bounding_box_Q.

Example C18_gen_nonvacuous :
  Utilities.evaluate_bounding_box Qops [[1; 5; 2]; [0; 7; 2]; [3; 6; -1]]%Q 1000%Q (-1000)%Q = GOk ([0; 5; -1], [3; 7; 2])%Q
  /\ Hull.bbox Qops [[1; 5; 2]; [0; 7; 2]; [3; 6; -1]]%Q = Ok ([0; 5; -1], [3; 7; 2])%Q.
Proof. repeat split; vm_compute; reflexivity. Qed.

From NV Require Import Model.Fit Gen.Fitting Proofs.GenTieFit.
From NV Require Import Model.Derivs Proofs.GenTieDerivCpts.
From NV Require Import Proofs.GenTieArr4 Proofs.GenTieDerivSurf.
From NV Require Import Model.KnotRefine Proofs.GenTieRefine.
From NV Require Import Model.Eval Gen.Evaluators Proofs.GenTieEvalLib Proofs.GenTieEvalCurve Proofs.GenTieEvalSurf Proofs.GenTieEvalVol.
From NV Require Import Model.Derivs Gen.HelpersC Proofs.GenTieBinom Proofs.GenTieBasisAll Proofs.GenTieEvalDerivCurve Proofs.GenTieEvalDerivCurve2.
From NV Require Import Proofs.GenTieEvalDerivSurf Proofs.GenTieEvalDerivSurfRat Proofs.GenTieEvalDerivSurf2.
From NV Require Import Model.Weights Gen.Compatibility Proofs.GenTieCompat.
From NV Require Import Model.Layout Gen.Compatibility Proofs.GenTieFlip.
From NV Require Import Model.Layout Model.Voxel Model.Hull Gen.OperationsInternal Proofs.GenTieFindCtrlpts.

From NV Require Import Model.Layout Model.Hull Gen.OperationsInternal Proofs.GenTieFindCtrlpts.

(* [G] the same against Model/Hull.v (C18: the active control point window) *)
Theorem C18_gen_find_ctrlpts_curve_R : forall (p : nat) (U : list R) (P : list (list R)) (t : R),
  p < length P -> length P <= length U ->
  OperationsInternal.find_ctrlpts_curve Rops t (mk_curveobj (Z.of_nat p) U P) (OperationsInternal.find_ctrlpts_curve__default_find_span_func Rops)
  = GOk (Hull.find_ctrlpts_curve Rops p U P t).
Proof. exact find_ctrlpts_curve_tie_hull_R. Qed.
Print Assumptions C18_gen_find_ctrlpts_curve_R.
Theorem C18_gen_find_ctrlpts_curve_Q : forall (p : nat) (U : list Q) (P : list (list Q)) (t : Q),
  p < length P -> length P <= length U ->
  OperationsInternal.find_ctrlpts_curve Qops t (mk_curveobj (Z.of_nat p) U P) (OperationsInternal.find_ctrlpts_curve__default_find_span_func Qops)
  = GOk (Hull.find_ctrlpts_curve Qops p U P t).
Proof. exact find_ctrlpts_curve_tie_hull_Q. Qed.
Print Assumptions C18_gen_find_ctrlpts_curve_Q.

(* [G] the same against Model/Hull.v (C18) *)
Theorem C18_gen_find_ctrlpts_surface_R : forall (pu pv : nat) (Uu Uv : list R) (su sv : nat) (V : list (list (list R))) (P : list (list R)) (tu tv : R),
  is_view2d V su sv P -> pu < su -> pv < sv -> su <= length Uu -> sv <= length Uv ->
  OperationsInternal.find_ctrlpts_surface Rops tu tv (mk_surfobj (Z.of_nat pu) (Z.of_nat pv) Uu Uv (Z.of_nat su) (Z.of_nat sv) V)
    (OperationsInternal.find_ctrlpts_surface__default_find_span_func Rops)
  = GOk (Hull.find_ctrlpts_surface Rops pu pv Uu Uv su sv P tu tv).
Proof. exact find_ctrlpts_surface_tie_hull_R. Qed.
Print Assumptions C18_gen_find_ctrlpts_surface_R.
Theorem C18_gen_find_ctrlpts_surface_Q : forall (pu pv : nat) (Uu Uv : list Q) (su sv : nat) (V : list (list (list Q))) (P : list (list Q)) (tu tv : Q),
  is_view2d V su sv P -> pu < su -> pv < sv -> su <= length Uu -> sv <= length Uv ->
  OperationsInternal.find_ctrlpts_surface Qops tu tv (mk_surfobj (Z.of_nat pu) (Z.of_nat pv) Uu Uv (Z.of_nat su) (Z.of_nat sv) V)
    (OperationsInternal.find_ctrlpts_surface__default_find_span_func Qops)
  = GOk (Hull.find_ctrlpts_surface Qops pu pv Uu Uv su sv P tu tv).
Proof. exact find_ctrlpts_surface_tie_hull_Q. Qed.
Print Assumptions C18_gen_find_ctrlpts_surface_Q.

