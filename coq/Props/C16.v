(* C16 - linear-algebra routines satisfy their defining equations on every call, independent of call history.
   Only statements; proofs live under Proofs/LinAlg*.v and Transfer/LinAlgT.v.  The model describes the
   REPAIRED behaviour (fixes/C16-pivot-copy-identity.diff, fixes/C16-lu-factor-permute-rhs.diff).
   [G] general (all sizes / inputs), [B] bounded (bound in the name). *)
From Coq Require Import List QArith Reals Qreals Lia Lra Arith Bool NArith Permutation.
From NV Require Import Scalar.Ops Model.Common Model.Knots Model.LinAlg
  Proofs.LinAlgSums Proofs.LinAlgR Proofs.LinAlgSolve Proofs.LinAlgPivot Proofs.LinAlgDet Proofs.LinAlgHist Transfer.LinAlgT.
From NV Require Import Proofs.LinAlgSDD Proofs.LinAlgDetGen Transfer.LinAlgT Transfer.LinAlgSDDT.
From NV Require Import Model.Basis Model.Knots Model.Eval Model.Fit Proofs.Boehm Proofs.BasisR Proofs.FitR Proofs.FitSurfR Proofs.FitSurfMore Proofs.CollocationLU Proofs.CollocationLUMore Proofs.PosDefLU Proofs.ApproxLU Proofs.CollocationLUSurf Transfer.FitT Transfer.CollocationLUT.
Import ListNotations.

(* ------------------------------------------------------------------ helpers equal their definitions *)
(* [G] dot product = sum of products over the common length *)
Theorem C16_vector_dot_is_sum : forall a b : list R, a <> [] -> b <> [] ->
  vector_dot Rops a b = Ok (sumr Rops 0 (Nat.min (length a) (length b)) (fun i => nth i a 0 * nth i b 0)%R).
Proof. exact vector_dot_spec. Qed.
Print Assumptions C16_vector_dot_is_sum.

(* [G] cross product: component formula, orthogonal to both factors, Lagrange identity |a x b|^2 = |a|^2 |b|^2 - (a.b)^2 *)
Theorem C16_vector_cross_identities : forall a0 a1 a2 b0 b1 b2 : R,
  let a := [a0; a1; a2] in let b := [b0; b1; b2] in
  vector_cross Rops a b = Ok (cross3 a b) /\
  vdot Rops a (cross3 a b) = 0%R /\ vdot Rops b (cross3 a b) = 0%R /\
  vdot Rops (cross3 a b) (cross3 a b) = (vdot Rops a a * vdot Rops b b - vdot Rops a b * vdot Rops a b)%R.
Proof. exact vector_cross_spec. Qed.
Print Assumptions C16_vector_cross_identities.
Theorem C16_vector_cross_2d : forall a0 a1 b0 b1 : R,
  vector_cross Rops [a0; a1] [b0; b1] = Ok [0; 0; a0 * b1 - a1 * b0]%R.
Proof. exact vector_cross_2d. Qed.
Print Assumptions C16_vector_cross_2d.

(* [G] squared norm (vector_magnitude is its square root, sqrt is not modelled); normalize refuses exactly the zero vector *)
Theorem C16_vector_norm : forall v : list R,
  vector_norm2 Rops v = sumr Rops 0 (length v) (fun i => nth i v 0 * nth i v 0)%R /\ (0 <= vector_norm2 Rops v)%R /\
  (v <> [] -> ((0 < vector_norm2 Rops v)%R -> vector_normalize Rops v = Ok (v, vector_norm2 Rops v)) /\
              (vector_norm2 Rops v = 0%R -> vector_normalize Rops v = Rejected)).
Proof.
  intros v. destruct (vector_norm2_spec v) as [H1 H2]. split; [exact H1|]. split; [exact H2|]. apply vector_normalize_spec.
Qed.
Print Assumptions C16_vector_norm.

(* [G] transpose: entry (i,j) = entry (j,i), and transposing twice is the identity on rectangular matrices *)
Theorem C16_transpose : forall r c (m : list (list R)), rect r c m -> (0 < r)%nat -> (0 < c)%nat ->
  (forall i j, (i < c)%nat -> (j < r)%nat -> get2 Rops (transpose Rops m) i j = get2 Rops m j i) /\
  transpose Rops (transpose Rops m) = m.
Proof.
  intros r c m Hm Hr Hc. split; [intros i j Hi Hj; apply (transpose_entry r c); assumption|apply (transpose_involutive r c); assumption].
Qed.
Print Assumptions C16_transpose.

(* [G] product entry (i,j) = sum_k a_ik b_kj ; the routine accepts exactly matching inner sizes *)
Theorem C16_matrix_multiply_entry : forall (a b : list (list R)) i j, (i < length a)%nat -> (j < length (hd [] b))%nat ->
  get2 Rops (mmul Rops a b) i j = sumr Rops 0 (length b) (fun k => get2 Rops a i k * get2 Rops b k j)%R.
Proof. exact mmul_entry. Qed.
Print Assumptions C16_matrix_multiply_entry.
Theorem C16_matrix_vector_entry : forall (a : list (list R)) v i, (i < length a)%nat ->
  nth i (mvmul Rops a v) 0%R = sumr Rops 0 (length v) (fun k => get2 Rops a i k * nth k v 0)%R.
Proof. exact mvmul_entry. Qed.
Print Assumptions C16_matrix_vector_entry.

(* [G] binomial coefficient: k!/(i!(k-i)!) exactly, Pascal's rule, edge values *)
Theorem C16_binomial : forall k i,
  ((i <= k)%nat -> (binomial_coefficient k i * (factN (k - i) * factN i) = factN k)%N) /\
  binomial_coefficient (S k) (S i) = (binomial_coefficient k i + binomial_coefficient k (S i))%N /\
  binomial_coefficient k 0 = 1%N /\ binomial_coefficient k k = 1%N /\ ((k < i)%nat -> binomial_coefficient k i = 0%N).
Proof.
  intros k i. destruct (binomial_edges k) as (E1 & E2 & E3).
  split; [apply binomial_factorial|]. split; [apply binomial_pascal|]. split; [exact E1|]. split; [exact E2|apply E3].
Qed.
Print Assumptions C16_binomial.

(* [G] linspace: num evenly spaced values from start to stop inclusive *)
Theorem C16_linspace : forall tol start stop num, (tol < Rabs (start - stop))%R -> (1 < num)%nat ->
  let l := linspace Rops tol start stop num in
  length l = num /\
  (forall i, (i < num)%nat -> nth i l 0%R = (start + INR i * (stop - start) / INR (num - 1))%R) /\
  nth 0 l 0%R = start /\ nth (num - 1) l 0%R = stop.
Proof. exact linspace_spec. Qed.
Print Assumptions C16_linspace.

(* ------------------------------------------------------------------ LU factorisation and the solvers *)
(* [G] Doolittle: for every size, if no pivot vanishes then L is unit lower triangular, U upper triangular and L U = A *)
Theorem C16_doolittle_LU : forall A : list (list R), is_square A = true ->
  let n := length A in let L := fst (doolittle Rops A) in let U := snd (doolittle Rops A) in
  (forall i, (i < n)%nat -> get2 Rops U i i <> 0%R) ->
  lu_decomposition Rops A = Ok (L, U) /\
  (forall i j, (i < n)%nat -> (j < n)%nat -> (i < j)%nat -> get2 Rops L i j = 0%R) /\
  (forall i, (i < n)%nat -> get2 Rops L i i = 1%R) /\
  (forall i j, (i < n)%nat -> (j < n)%nat -> (j < i)%nat -> get2 Rops U i j = 0%R) /\
  mmul Rops L U = A.
Proof. exact doolittle_LU. Qed.
Print Assumptions C16_doolittle_LU.

(* [G] forward substitution solves L y = b (reads the lower triangle only) *)
Theorem C16_forward_substitution_correct : forall (L : list (list R)) (b : list R),
  let q := length b in (0 < q)%nat -> rect q q L -> (forall r, (r < q)%nat -> get2 Rops L r r <> 0%R) ->
  exists y, forward_substitution Rops L b = Ok y /\ length y = q /\
    forall r, (r < q)%nat -> sumr Rops 0 (S r) (fun j => get2 Rops L r j * nth j y 0)%R = nth r b 0%R.
Proof. exact forward_substitution_correct. Qed.
Print Assumptions C16_forward_substitution_correct.

(* [G] backward substitution solves U x = y (reads the upper triangle only) *)
Theorem C16_backward_substitution_correct : forall (U : list (list R)) (y : list R),
  let q := length y in (0 < q)%nat -> rect q q U -> (forall r, (r < q)%nat -> get2 Rops U r r <> 0%R) ->
  exists x, backward_substitution Rops U y = Ok x /\ length x = q /\
    forall r, (r < q)%nat -> sumr Rops r (q - r) (fun j => get2 Rops U r j * nth j x 0)%R = nth r y 0%R.
Proof. exact backward_substitution_correct. Qed.
Print Assumptions C16_backward_substitution_correct.

(* [G] lu_solve: whenever no pivot vanishes a result is returned and A X = B holds column by column *)
Theorem C16_lu_solve_correct : forall (A b : list (list R)) dim,
  let n := length A in (0 < n)%nat -> is_square A = true -> rect n dim b ->
  (forall i, (i < n)%nat -> get2 Rops (snd (doolittle Rops A)) i i <> 0%R) ->
  exists X, lu_solve Rops A b = Ok X /\ rect n dim X /\
    forall i c, (i < n)%nat -> (c < dim)%nat -> sumr Rops 0 n (fun k => get2 Rops A i k * get2 Rops X k c)%R = get2 Rops b i c.
Proof. exact lu_solve_correct. Qed.
Print Assumptions C16_lu_solve_correct.

(* [G] the same statement about the EXECUTABLE rational instance (what the correspondence check runs), by parametricity transfer *)
Theorem C16_lu_solve_correct_Q : forall (A b : list (list Q)) dim,
  let n := length A in (0 < n)%nat -> is_square A = true -> rectQ n dim b ->
  (forall i, (i < n)%nat -> ~ (get2 Qops (snd (doolittle Qops A)) i i == 0)%Q) ->
  exists X, lu_solve Qops A b = Ok X /\
    forall i c, (i < n)%nat -> (c < dim)%nat ->
      (sumr Qops 0 n (fun k => omul Qops (get2 Qops A i k) (get2 Qops X k c)) == get2 Qops b i c)%Q.
Proof. exact lu_solve_correct_Q. Qed.
Print Assumptions C16_lu_solve_correct_Q.

(* NOT proved (tied by the correspondence and the oracle only): strictly diagonally dominant matrices and
   spline collocation matrices have non-zero Doolittle pivots. *)
Definition C16_sdd_pivots_nonzero_full : Prop := forall A : list (list R), is_square A = true ->
  (forall i, (i < length A)%nat ->
     (sumr Rops 0 (length A) (fun j => if Nat.eqb j i then 0 else Rabs (get2 Rops A i j)) < Rabs (get2 Rops A i i))%R) ->
  forall i, (i < length A)%nat -> get2 Rops (snd (doolittle Rops A)) i i <> 0%R.

(* ------------------------------------------------------------------ pivoting *)
(* [G] matrix_pivot: P and MP are the rows of the identity and of M under one permutation of 0..n-1,
   so P is a genuine permutation matrix (one 1 per row at column s_i) and MP = P M *)
Theorem C16_pivot_is_permutation : forall m : list (list R), is_square m = true -> (0 < length m)%nat ->
  exists s ns, matrix_pivot Rops m = Ok (rows_by m s, rows_by (matrix_identity Rops (length m)) s, ns) /\
    Permutation s (seq 0 (length m)) /\
    (forall i j, (i < length m)%nat -> (j < length m)%nat ->
        get2 Rops (rows_by (matrix_identity Rops (length m)) s) i j = if Nat.eqb j (nth i s 0%nat) then 1%R else 0%R) /\
    mmul Rops (rows_by (matrix_identity Rops (length m)) s) m = rows_by m s.
Proof.
  intros m Hsq Hn. destruct (pivot_is_permutation m (matrix_identity Rops (length m))) as (s & ns & E & Hs & HP).
  { destruct (identity_rect (length m)) as [H _]. exact H. }
  exists s, ns. split; [unfold matrix_pivot, pivot_res; rewrite Hsq, E; reflexivity|]. split; [exact HP|]. split.
  - intros i j Hi Hj. apply perm_matrix_entry; assumption.
  - apply (perm_mmul (length m) (length m)); [exact Hn|exact Hs|apply is_square_rect, Hsq].
Qed.
Print Assumptions C16_pivot_is_permutation.

(* [G] lu_factor (repaired: right-hand side permuted like the rows): A X = B whenever no pivot of P A vanishes *)
Theorem C16_lu_factor_correct : forall (A b : list (list R)) dim, (0 < length A)%nat -> is_square A = true ->
  (forall i, (i < length A)%nat ->
     get2 Rops (snd (doolittle Rops (fst (fst (pivot_with Rops (matrix_identity Rops (length A)) A))))) i i <> 0%R) ->
  rect (length A) dim b ->
  exists X, lu_factor Rops A b = Ok X /\ rect (length A) dim X /\
    forall r c, (r < length A)%nat -> (c < dim)%nat ->
      sumr Rops 0 (length A) (fun k => get2 Rops A r k * get2 Rops X k c)%R = get2 Rops b r c.
Proof. intros A b dim Hn Hsq Hp. exact (lu_factor_correct A Hn Hsq Hp b dim). Qed.
Print Assumptions C16_lu_factor_correct.

(* [G] matrix_inverse: M M^-1 = I whenever no pivot of P M vanishes *)
Theorem C16_inverse_correct : forall A : list (list R), (0 < length A)%nat -> is_square A = true ->
  (forall i, (i < length A)%nat ->
     get2 Rops (snd (doolittle Rops (fst (fst (pivot_with Rops (matrix_identity Rops (length A)) A))))) i i <> 0%R) ->
  exists X, matrix_inverse Rops A = Ok X /\ rect (length A) (length A) X /\
    forall r c, (r < length A)%nat -> (c < length A)%nat ->
      sumr Rops 0 (length A) (fun k => get2 Rops A r k * get2 Rops X k c)%R = if Nat.eqb c r then 1%R else 0%R.
Proof. exact matrix_inverse_correct. Qed.
Print Assumptions C16_inverse_correct.

(* [B] determinant = Leibniz formula (sum over all permutations) for n <= 3, every pivoting pattern, given non-zero pivots *)
Theorem C16_determinant_is_leibniz_n_le_3 : forall m : list (list R), is_square m = true -> (length m <= 3)%nat ->
  (forall i, (i < length m)%nat ->
     get2 Rops (snd (doolittle Rops (fst (fst (pivot_with Rops (matrix_identity Rops (length m)) m))))) i i <> 0%R) ->
  matrix_determinant Rops m = Ok (leibniz (length m) m).
Proof. exact determinant_leibniz_n_le_3. Qed.
Print Assumptions C16_determinant_is_leibniz_n_le_3.
(* the unbounded statement (not proved: multiplicativity of the determinant over lists) *)
Definition C16_determinant_is_leibniz_given_pivots_full : Prop := forall m : list (list R), is_square m = true ->
  (forall i, (i < length m)%nat ->
     get2 Rops (snd (doolittle Rops (fst (fst (pivot_with Rops (matrix_identity Rops (length m)) m))))) i i <> 0%R) ->
  matrix_determinant Rops m = Ok (leibniz (length m) m).
(* what the property text demands: a returned determinant of a non-singular matrix is the Leibniz determinant *)
Definition C16_determinant_nonsingular_full : Prop := forall (m : list (list R)) d, is_square m = true ->
  leibniz (length m) m <> 0%R -> matrix_determinant Rops m = Ok d -> d = leibniz (length m) m.
(* REFUTED by the faithful model (known finding det-zero-leading-minor): a non-singular matrix whose
   row-exchanged form has a vanishing leading minor gets determinant 0 *)
Theorem C16_determinant_nonsingular_refuted : ~ C16_determinant_nonsingular_full.
Proof.
  intros H.
  specialize (H (mQ2R [[1;1;0];[1;1;1];[0;1;1]]%Q) (Q2R 0)).
  rewrite is_square_transfer, matrix_determinant_transfer in H.
  assert (E : leibniz 3 (mQ2R [[1;1;0];[1;1;1];[0;1;1]]%Q) = (-1)%R).
  { rewrite leibniz_3, !get2_transfer.
    replace (Q2R (get2 Qops [[1; 1; 0]; [1; 1; 1]; [0; 1; 1]]%Q 0 0)) with 1%R by (vm_compute; lra).
    replace (Q2R (get2 Qops [[1; 1; 0]; [1; 1; 1]; [0; 1; 1]]%Q 0 1)) with 1%R by (vm_compute; lra).
    replace (Q2R (get2 Qops [[1; 1; 0]; [1; 1; 1]; [0; 1; 1]]%Q 0 2)) with 0%R by (vm_compute; lra).
    replace (Q2R (get2 Qops [[1; 1; 0]; [1; 1; 1]; [0; 1; 1]]%Q 1 0)) with 1%R by (vm_compute; lra).
    replace (Q2R (get2 Qops [[1; 1; 0]; [1; 1; 1]; [0; 1; 1]]%Q 1 1)) with 1%R by (vm_compute; lra).
    replace (Q2R (get2 Qops [[1; 1; 0]; [1; 1; 1]; [0; 1; 1]]%Q 1 2)) with 1%R by (vm_compute; lra).
    replace (Q2R (get2 Qops [[1; 1; 0]; [1; 1; 1]; [0; 1; 1]]%Q 2 0)) with 0%R by (vm_compute; lra).
    replace (Q2R (get2 Qops [[1; 1; 0]; [1; 1; 1]; [0; 1; 1]]%Q 2 1)) with 1%R by (vm_compute; lra).
    replace (Q2R (get2 Qops [[1; 1; 0]; [1; 1; 1]; [0; 1; 1]]%Q 2 2)) with 1%R by (vm_compute; lra).
    lra. }
  rewrite mQ2R_length in H. cbn [length] in H. rewrite E in H.
  assert (H' := H eq_refl ltac:(lra) eq_refl). rewrite Q2R_0 in H'. lra.
Qed.
Print Assumptions C16_determinant_nonsingular_refuted.

(* ------------------------------------------------------------------ independence of the call history *)
(* [G] repaired tree: for every scalar type, every sequence of calls (any routines, sizes, matrices), every answer
   equals the answer of the same call in a fresh process *)
Theorem C16_history_independent : forall (T : Type) (K : ops T) (ops : list (@lop T)),
  run_seq (step_fixed K) [] ops = map (fresh K) ops.
Proof. intros T K. exact (history_independent K). Qed.
Print Assumptions C16_history_independent.
Theorem C16_history_independent_any_reachable_cache : forall (T : Type) (K : ops T) (c : @cache T) (ops : list (@lop T)),
  cache_ok K c -> run_seq (step_fixed K) c ops = map (fresh K) ops.
Proof. intros T K c ops. exact (history_independent_from K c ops). Qed.
Print Assumptions C16_history_independent_any_reachable_cache.
(* pinned tree (matrix_pivot swaps rows of the memoised identity): the same statement is false;
   witness: pivot a matrix that needs a row exchange, then invert diag(2,4) *)
Theorem C16_history_pinned_refuted :
  exists ops : list (@lop Q), run_seq (step_pinned Qops) [] ops <> map (fresh Qops) ops.
Proof. exists [OpPivot [[0;2];[1;1]]%Q; OpInverse [[2;0];[0;4]]%Q]. vm_compute. discriminate. Qed.
Print Assumptions C16_history_pinned_refuted.

(* ------------------------------------------------------------------ non-vacuity *)
Definition exA : list (list Q) := [[2;1;1];[4;3;3];[8;7;9]]%Q.          (* pivots 2, 1, 2: no exchange needed by Doolittle *)
Definition exB : list (list Q) := [[0;2;1];[1;1;0];[3;0;1]]%Q.          (* needs row exchanges *)
Definition exb : list (list Q) := [[1;0];[2;1];[3;5]]%Q.
(* hypotheses of C16_doolittle_LU / C16_lu_solve_correct hold for exA over the reals, and the executable instance agrees *)
Example C16_lu_hypotheses_satisfiable :
  is_square (mQ2R exA) = true /\ (forall i, (i < 3)%nat -> get2 Rops (snd (doolittle Rops (mQ2R exA))) i i <> 0%R) /\
  rect 3 2 (mQ2R exb) /\
  lu_solve Qops exA exb = Ok [[1#2; -1#2]; [1#2; 0]; [-1#2; 1]]%Q /\ mmul Qops exA [[1#2; -1#2]; [1#2; 0]; [-1#2; 1]]%Q = exb.
Proof.
  split; [rewrite is_square_transfer; reflexivity|]. split.
  - apply pivots_transfer. intros i Hi. assert (C : (i = 0 \/ i = 1 \/ i = 2)%nat) by lia.
    destruct C as [-> | [-> | ->]]; vm_compute; discriminate.
  - split.
    + split; [reflexivity|]. intros row Hin. cbn in Hin. destruct Hin as [E|[E|[E|E]]]; try contradiction; subst row; reflexivity.
    + split; vm_compute; reflexivity.
Qed.
(* hypotheses of the pivoted theorems hold for exB (two row exchanges), and the executable instance inverts it *)
Example C16_pivoted_hypotheses_satisfiable :
  is_square (mQ2R exB) = true /\
  (forall i, (i < 3)%nat ->
     get2 Rops (snd (doolittle Rops (fst (fst (pivot_with Rops (matrix_identity Rops (length (mQ2R exB))) (mQ2R exB)))))) i i <> 0%R) /\
  snd (pivot_with Qops (matrix_identity Qops 3) exB) = 2%nat /\
  (exists X, matrix_inverse Qops exB = Ok X /\ mmul Qops exB X = matrix_identity Qops 3) /\
  matrix_determinant Qops exB = Ok (-5)%Q.
Proof.
  split; [rewrite is_square_transfer; reflexivity|]. split.
  - apply pivoted_pivots_transfer. intros i Hi. assert (C : (i = 0 \/ i = 1 \/ i = 2)%nat) by lia.
    destruct C as [-> | [-> | ->]]; vm_compute; discriminate.
  - split; [vm_compute; reflexivity|]. split; [|vm_compute; reflexivity].
    eexists. split; vm_compute; reflexivity.
Qed.
(* a history of length 3 on the repaired machine: answers equal the fresh answers, and they are not errors *)
Example C16_history_nontrivial :
  run_seq (step_fixed Qops) [] [OpPivot exB; OpInverse exA; OpDet exB] = map (fresh Qops) [OpPivot exB; OpInverse exA; OpDet exB] /\
  nth 2 (run_seq (step_fixed Qops) [] [OpPivot exB; OpInverse exA; OpDet exB]) Crash = Ok [[[(-5)%Q]]].
Proof. split; vm_compute; reflexivity. Qed.

(* ====================== round 2 (Proofs/LinAlgSDD.v, LinAlgDetGen.v, Transfer/LinAlgSDDT.v): LU exists for strictly diagonally dominant matrices;
   determinant = Leibniz for every size ====================== *)
(* [G] every size: a strictly diagonally dominant matrix has only non-zero Doolittle pivots *)
Theorem C16_sdd_pivots_nonzero : C16_sdd_pivots_nonzero_full.
Proof. intros A _ H. apply sdd_pivots_nonzero. exact H. Qed.
Print Assumptions C16_sdd_pivots_nonzero.

(* [G] lu_solve ALWAYS returns a result on strictly diagonally dominant matrices, and it solves the system *)
Theorem C16_lu_solve_sdd_correct : forall (A b : list (list R)) dim,
  let n := length A in (0 < n)%nat -> is_square A = true ->
  (forall i, (i < n)%nat ->
     (sumr Rops 0 n (fun j => if Nat.eqb j i then 0 else Rabs (get2 Rops A i j)) < Rabs (get2 Rops A i i))%R) ->
  rect n dim b ->
  exists X, lu_solve Rops A b = Ok X /\ rect n dim X /\
    forall i c, (i < n)%nat -> (c < dim)%nat -> sumr Rops 0 n (fun k => get2 Rops A i k * get2 Rops X k c)%R = get2 Rops b i c.
Proof. exact lu_solve_sdd_correct. Qed.
Print Assumptions C16_lu_solve_sdd_correct.

(* [G] ... and that solution is the only one *)
Theorem C16_lu_solve_sdd_unique : forall (A b : list (list R)) dim (X Y : list (list R)), sdd A ->
  rect (length A) dim X -> rect (length A) dim Y ->
  (forall i c, (i < length A)%nat -> (c < dim)%nat -> sumr Rops 0 (length A) (fun k => get2 Rops A i k * get2 Rops X k c)%R = get2 Rops b i c) ->
  (forall i c, (i < length A)%nat -> (c < dim)%nat -> sumr Rops 0 (length A) (fun k => get2 Rops A i k * get2 Rops Y k c)%R = get2 Rops b i c) ->
  X = Y.
Proof. exact lu_solve_sdd_unique. Qed.
Print Assumptions C16_lu_solve_sdd_unique.

(* [G] determinant = Leibniz formula for EVERY size and every pivoting pattern, given non-zero pivots *)
Theorem C16_determinant_is_leibniz_given_pivots : C16_determinant_is_leibniz_given_pivots_full.
Proof. intros m Hsq Hp. apply determinant_leibniz; assumption. Qed.
Print Assumptions C16_determinant_is_leibniz_given_pivots.

(* [G] every size: a non-zero value returned by matrix_determinant is the Leibniz determinant *)
Theorem C16_determinant_nonzero_result : forall (m : list (list R)) d, is_square m = true ->
  matrix_determinant Rops m = Ok d -> d <> 0%R -> d = leibniz (length m) m.
Proof. exact determinant_nonzero_result. Qed.
Print Assumptions C16_determinant_nonzero_result.

(* [G] strictly diagonally dominant matrices are non-singular: Leibniz determinant = product of the pivots <> 0 *)
Theorem C16_sdd_nonsingular : forall A : list (list R), sdd A ->
  leibniz (length A) A = prodf (fun i => get2 Rops (snd (doolittle Rops A)) i i) (length A) /\ leibniz (length A) A <> 0%R.
Proof. exact sdd_leibniz_nonzero. Qed.
Print Assumptions C16_sdd_nonsingular.

(* non-vacuity: a 3 x 3 strictly diagonally dominant matrix with entries of both signs *)
Example C16_sdd_satisfiable : sdd [[4; 1; -2]; [1; -5; 3]; [0; 2; 3]]%R /\ is_square [[4; 1; -2]; [1; -5; 3]; [0; 2; 3]]%R = true.
Proof.
  split; [|reflexivity]. intros i Hi. cbn [length] in *.
  assert (C : (i = 0 \/ i = 1 \/ i = 2)%nat) by lia.
  destruct C as [-> | [-> | ->]]; unfold sumr, get2; cbn [seq map sumT nth Nat.eqb]; cbn [oadd o0 Rops];
    repeat match goal with |- context [Rabs ?x] => let H := fresh in
      first [assert (H : Rabs x = x) by (apply Rabs_right; lra) | assert (H : Rabs x = (- x)%R) by (apply Rabs_left; lra)]; rewrite H; clear H end; lra.
Qed.


(* [G] the EXECUTABLE rational instance: lu_solve always returns a result on strictly diagonally dominant matrices *)
Theorem C16_lu_solve_sdd_correct_Q : forall (A b : list (list Q)) dim,
  let n := length A in (0 < n)%nat -> is_square A = true ->
  (forall i, (i < n)%nat ->
     (sumr Qops 0 n (fun j => if Nat.eqb j i then 0 else Qabs.Qabs (get2 Qops A i j)) < Qabs.Qabs (get2 Qops A i i))%Q) ->
  rectQ n dim b ->
  exists X, lu_solve Qops A b = Ok X /\
    forall i c, (i < n)%nat -> (c < dim)%nat ->
      (sumr Qops 0 n (fun k => omul Qops (get2 Qops A i k) (get2 Qops X k c)) == get2 Qops b i c)%Q.
Proof. exact lu_solve_sdd_correct_Q. Qed.
Print Assumptions C16_lu_solve_sdd_correct_Q.

(* ====================== round 2 (Proofs/CollocationLU*.v, PosDefLU.v): lu_solve always returns a result on spline collocation matrices ====================== *)
(* ================= Props/C16.v ================= *)
(* [G] collocation half of the C16 sentence: lu_solve (plain Doolittle, no pivoting) ALWAYS returns a result on the
   spline collocation matrices of global interpolation, and the result solves the system *)
Theorem C16_lu_solve_collocation_correct : forall (p n dim : nat) (uk : list R) (b : list (list R)), (1 <= p < n)%nat -> length uk = n ->
  nth 0 uk 0%R = 0%R -> nth (n - 1) uk 0%R = 1%R -> (forall i, (S i < n)%nat -> (nth i uk 0 < nth (S i) uk 0)%R) -> rect n dim b ->
  let A := build_coeff_matrix Rops p (compute_knot_vector Rops p n uk) uk n in
  exists X, lu_solve Rops A b = Ok X /\ rect n dim X /\
    forall i c, (i < n)%nat -> (c < dim)%nat -> sumr Rops 0 n (fun k => get2 Rops A i k * get2 Rops X k c)%R = get2 Rops b i c.
Proof. exact lu_solve_collocation_correct. Qed.
Print Assumptions C16_lu_solve_collocation_correct.

(* [G] general tool: non-zero leading principal minors (of the transpose) <=> LU without pivoting exists *)
Theorem C16_pivots_from_leading_minors : forall A : list (list R),
  (forall m, (m < length A)%nat -> leibF (S m) (fun j i => get2 Rops A i j) <> 0%R) ->
  forall i, (i < length A)%nat -> get2 Rops (snd (doolittle Rops A)) i i <> 0%R.
Proof. exact CollocDet.doolittle_pivots_from_minors. Qed.
Print Assumptions C16_pivots_from_leading_minors.

(* [G] executable instance *)
Theorem C16_interp_solve_returns_Q : forall (p n : nat) (uk : list Q), (1 <= p < n)%nat -> length uk = n ->
  (nth 0 uk 0 == 0)%Q -> (nth (n - 1) uk 0 == 1)%Q -> (forall i, (S i < n)%nat -> (nth i uk 0 < nth (S i) uk 0)%Q) ->
  forall (pts : list (list Q)) dim, rectQ n dim pts ->
  exists P, interp_1d Qops p (compute_knot_vector Qops p n uk) uk pts = Ok P /\
    forall i c, (i < n)%nat -> (c < dim)%nat ->
      (sumr Qops 0 n (fun k => omul Qops (get2 Qops (build_coeff_matrix Qops p (compute_knot_vector Qops p n uk) uk n) i k) (get2 Qops P k c)) == get2 Qops pts i c)%Q.
Proof. exact interp_1d_Q_returns. Qed.
Print Assumptions C16_interp_solve_returns_Q.

(* [G] every size: a positive definite matrix (x^T A x > 0 for x <> 0 on 0..n-1; symmetry not needed) has only non-zero Doolittle pivots *)
Theorem C16_pd_pivots_nonzero : forall A : list (list R),
  (forall x : nat -> R, (exists i, (0 <= i < length A)%nat /\ x i <> 0%R) ->
     (0 < sumr Rops 0 (length A - 0) (fun r => sumr Rops 0 (length A - 0) (fun c => x r * get2 Rops A r c * x c)))%R) ->
  forall i, (i < length A)%nat -> get2 Rops (snd (doolittle Rops A)) i i <> 0%R.
Proof. exact pd_pivots_nonzero. Qed.
Print Assumptions C16_pd_pivots_nonzero.

(* [G] non-zero Doolittle pivots  ==>  trivial kernel *)
Theorem C16_nonzero_pivots_trivial_kernel : forall (A : list (list R)) (x : nat -> R),
  (forall i, (i < length A)%nat -> get2 Rops (snd (doolittle Rops A)) i i <> 0%R) ->
  (forall r, (r < length A)%nat -> sumr Rops 0 (length A) (fun c => get2 Rops A r c * x c)%R = 0%R) -> forall c, (c < length A)%nat -> x c = 0%R.
Proof. exact doolittle_trivial_kernel. Qed.
Print Assumptions C16_nonzero_pivots_trivial_kernel.

(* [G] Gram matrices: N with a trivial kernel  ==>  N^T N has only non-zero Doolittle pivots *)
Theorem C16_gram_pivots_nonzero : forall (Nm : list (list R)) rows n, rect rows n Nm -> (0 < rows)%nat -> (0 < n)%nat ->
  (forall x, (forall i, (i < rows)%nat -> sumr Rops 0 n (fun j => get2 Rops Nm i j * x j)%R = 0%R) -> forall j, (j < n)%nat -> x j = 0%R) ->
  forall i, (i < n)%nat -> get2 Rops (snd (doolittle Rops (mmul Rops (transpose Rops Nm) Nm))) i i <> 0%R.
Proof. exact gram_pivots_nonzero. Qed.
Print Assumptions C16_gram_pivots_nonzero.

(* ====================== TRANSLATOR TIE (Proofs/GenTie*.v) ======================
   coq/Gen/*.v is the Gallina rendering of the Python source produced by harness/pytrans.py; every run of ./check regenerates it
   from /repo and compares it function by function with the committed text (evidence: translator_tie).  The theorems below say
   that the hand-written model (the subject of the theorems above) computes, for ALL inputs satisfying the stated
   well-formedness, exactly what the translated source computes.  This block stays LAST in the file: its imports shadow
   model names. *)
From Coq Require Import List QArith Reals Qreals Lia Lra Arith Bool ZArith.
From NV Require Import Scalar.Ops Model.Common Model.Basis Model.Knots Model.KnotIns Model.KnotRem Model.LinAlg Model.Degree
  Gen.Prelude Gen.LinalgInternal Gen.Linalg Gen.Knotvector Gen.Helpers
  Proofs.GenTieSums Proofs.GenTieLinAlg Proofs.GenTieSubst Proofs.GenTieLU Proofs.GenTieLUSolve Proofs.GenTieKnotRem Proofs.GenTieDegree
  Proofs.GenTieLib Proofs.GenTieKnots Proofs.GenTieSpan Proofs.GenTieBasis Proofs.GenTieBasisOne
  Proofs.GenTieDersOne Proofs.GenTieDersLib Proofs.GenTieDers Proofs.GenTieKnotIns.
Local Open Scope nat_scope.



(* [G] vector_multiply, vector_sum: no condition *)
Theorem C16_gen_vector_multiply_R : forall (v : list R) (s : R), Linalg.vector_multiply Rops v s = GOk (LinAlg.vector_multiply Rops v s).
Proof. exact vector_multiply_tie_R. Qed.
Print Assumptions C16_gen_vector_multiply_R.
Theorem C16_gen_vector_multiply_Q : forall (v : list Q) (s : Q), Linalg.vector_multiply Qops v s = GOk (LinAlg.vector_multiply Qops v s).
Proof. exact vector_multiply_tie_Q. Qed.
Print Assumptions C16_gen_vector_multiply_Q.
Theorem C16_gen_vector_sum_R : forall (a b : list R) (c : R), Linalg.vector_sum Rops a b c = GOk (LinAlg.vector_sum Rops a b c).
Proof. exact vector_sum_tie_R. Qed.
Print Assumptions C16_gen_vector_sum_R.
Theorem C16_gen_vector_sum_Q : forall (a b : list Q) (c : Q), Linalg.vector_sum Qops a b c = GOk (LinAlg.vector_sum Qops a b c).
Proof. exact vector_sum_tie_Q. Qed.
Print Assumptions C16_gen_vector_sum_Q.

(* [G] vector_dot, vector_cross: all inputs; ValueError exactly when the model rejects *)
Theorem C16_gen_vector_dot_R : forall a b : list R,
  Linalg.vector_dot Rops a b = res_to_gres (fun x => x) ValueError IndexError (LinAlg.vector_dot Rops a b).
Proof. exact vector_dot_tie_R. Qed.
Print Assumptions C16_gen_vector_dot_R.
Theorem C16_gen_vector_dot_Q : forall a b : list Q,
  Linalg.vector_dot Qops a b = res_to_gres (fun x => x) ValueError IndexError (LinAlg.vector_dot Qops a b).
Proof. exact vector_dot_tie_Q. Qed.
Print Assumptions C16_gen_vector_dot_Q.
Theorem C16_gen_vector_cross_R : forall a b : list R,
  Linalg.vector_cross Rops a b = res_to_gres (fun x => x) ValueError IndexError (LinAlg.vector_cross Rops a b).
Proof. exact vector_cross_tie_R. Qed.
Print Assumptions C16_gen_vector_cross_R.
Theorem C16_gen_vector_cross_Q : forall a b : list Q,
  Linalg.vector_cross Qops a b = res_to_gres (fun x => x) ValueError IndexError (LinAlg.vector_cross Qops a b).
Proof. exact vector_cross_tie_Q. Qed.
Print Assumptions C16_gen_vector_cross_Q.

(* [G] matrix_transpose; wf: no row shorter than the first (the model's own condition); [] raises IndexError <-> Crash *)
Theorem C16_gen_matrix_transpose_R : forall m : list (list R),
  (forall r, In r m -> length (hd [] m) <= length r) ->
  Linalg.matrix_transpose Rops m = res_to_gres (fun x => x) ValueError IndexError (LinAlg.matrix_transpose Rops m).
Proof. exact matrix_transpose_tie_R. Qed.
Print Assumptions C16_gen_matrix_transpose_R.
Theorem C16_gen_matrix_transpose_Q : forall m : list (list Q),
  (forall r, In r m -> length (hd [] m) <= length r) ->
  Linalg.matrix_transpose Qops m = res_to_gres (fun x => x) ValueError IndexError (LinAlg.matrix_transpose Qops m).
Proof. exact matrix_transpose_tie_Q. Qed.
Print Assumptions C16_gen_matrix_transpose_Q.

(* [G] matrix_multiply; GeomdlException <-> Rejected, IndexError <-> Crash; wf: rows of mat1 have >= len(mat2) entries and
   rows of mat2 >= len(mat2[0]) (Python only compares len(mat1[0]) with len(mat2)) *)
Theorem C16_gen_matrix_multiply_R : forall a b : list (list R),
  (forall ra, In ra a -> length b <= length ra) -> (forall rb, In rb b -> length (hd [] b) <= length rb) ->
  Linalg.matrix_multiply Rops a b = res_to_gres (fun x => x) GeomdlError IndexError (LinAlg.matrix_multiply Rops a b).
Proof. exact matrix_multiply_tie_R. Qed.
Print Assumptions C16_gen_matrix_multiply_R.
Theorem C16_gen_matrix_multiply_Q : forall a b : list (list Q),
  (forall ra, In ra a -> length b <= length ra) -> (forall rb, In rb b -> length (hd [] b) <= length rb) ->
  Linalg.matrix_multiply Qops a b = res_to_gres (fun x => x) GeomdlError IndexError (LinAlg.matrix_multiply Qops a b).
Proof. exact matrix_multiply_tie_Q. Qed.
Print Assumptions C16_gen_matrix_multiply_Q.

(* [G] lu_decomposition (with _linalg.doolittle and its try/except ZeroDivisionError): ALL inputs; ValueError <-> Rejected *)
Theorem C16_gen_lu_decomposition_R : forall A : list (list R),
  Linalg.lu_decomposition Rops A = res_to_gres (fun x => x) ValueError IndexError (LinAlg.lu_decomposition Rops A).
Proof. exact lu_decomposition_tie_R. Qed.
Print Assumptions C16_gen_lu_decomposition_R.
Theorem C16_gen_lu_decomposition_Q : forall A : list (list Q),
  Linalg.lu_decomposition Qops A = res_to_gres (fun x => x) ValueError IndexError (LinAlg.lu_decomposition Qops A).
Proof. exact lu_decomposition_tie_Q. Qed.
Print Assumptions C16_gen_lu_decomposition_Q.

(* [G] forward / backward substitution (division checked: ZeroDivisionError is what the model calls Crash), the non-raising
   case: rows long enough, no zero on the diagonal *)
Theorem C16_gen_forward_substitution_R : forall (L : list (list R)) (b : list R),
  b <> [] -> (forall i, i < length b -> i < length (nth i L [])) ->
  (forall i, i < length b -> oeqb Rops (get2 Rops L i i) 0%R = false) ->
  Linalg.forward_substitution Rops L b = res_to_gres (fun x => x) ValueError IndexError (LinAlg.forward_substitution Rops L b).
Proof. exact forward_substitution_tie_R. Qed.
Print Assumptions C16_gen_forward_substitution_R.
Theorem C16_gen_forward_substitution_Q : forall (L : list (list Q)) (b : list Q),
  b <> [] -> (forall i, i < length b -> i < length (nth i L [])) ->
  (forall i, i < length b -> oeqb Qops (get2 Qops L i i) 0%Q = false) ->
  Linalg.forward_substitution Qops L b = res_to_gres (fun x => x) ValueError IndexError (LinAlg.forward_substitution Qops L b).
Proof. exact forward_substitution_tie_Q. Qed.
Print Assumptions C16_gen_forward_substitution_Q.
Theorem C16_gen_backward_substitution_R : forall (U : list (list R)) (y : list R),
  y <> [] -> (forall i, i < length y -> length y <= length (nth i U [])) ->
  (forall i, i < length y -> oeqb Rops (get2 Rops U i i) 0%R = false) ->
  Linalg.backward_substitution Rops U y = res_to_gres (fun x => x) ValueError IndexError (LinAlg.backward_substitution Rops U y).
Proof. exact backward_substitution_tie_R. Qed.
Print Assumptions C16_gen_backward_substitution_R.
Theorem C16_gen_backward_substitution_Q : forall (U : list (list Q)) (y : list Q),
  y <> [] -> (forall i, i < length y -> length y <= length (nth i U [])) ->
  (forall i, i < length y -> oeqb Qops (get2 Qops U i i) 0%Q = false) ->
  Linalg.backward_substitution Qops U y = res_to_gres (fun x => x) ValueError IndexError (LinAlg.backward_substitution Qops U y).
Proof. exact backward_substitution_tie_Q. Qed.
Print Assumptions C16_gen_backward_substitution_Q.

(* [G] lu_solve, the non-raising case *)
Theorem C16_gen_lu_solve_R : forall A b L U : list (list R),
  b <> [] -> (forall r, In r b -> length (hd [] b) <= length r) -> LinAlg.lu_decomposition Rops A = Ok (L, U) ->
  (forall i, i < length b -> i < length (nth i L []) /\ oeqb Rops (get2 Rops L i i) 0%R = false
                             /\ length b <= length (nth i U []) /\ oeqb Rops (get2 Rops U i i) 0%R = false) ->
  Linalg.lu_solve Rops A b = res_to_gres (fun x => x) ValueError IndexError (LinAlg.lu_solve Rops A b)
  /\ exists x, LinAlg.lu_solve Rops A b = Ok x.
Proof. exact lu_solve_tie_R. Qed.
Print Assumptions C16_gen_lu_solve_R.
Theorem C16_gen_lu_solve_Q : forall A b L U : list (list Q),
  b <> [] -> (forall r, In r b -> length (hd [] b) <= length r) -> LinAlg.lu_decomposition Qops A = Ok (L, U) ->
  (forall i, i < length b -> i < length (nth i L []) /\ oeqb Qops (get2 Qops L i i) 0%Q = false
                             /\ length b <= length (nth i U []) /\ oeqb Qops (get2 Qops U i i) 0%Q = false) ->
  Linalg.lu_solve Qops A b = res_to_gres (fun x => x) ValueError IndexError (LinAlg.lu_solve Qops A b)
  /\ exists x, LinAlg.lu_solve Qops A b = Ok x.
Proof. exact lu_solve_tie_Q. Qed.
Print Assumptions C16_gen_lu_solve_Q.

Example C16_gen_nonvacuous :
  Linalg.lu_solve Qops [[4; 3; 2]; [2; 1; 3]; [3; 4; 1]]%Q [[1; 2]; [3; 4]; [5; 6]]%Q = GOk [[-3; -40#13]; [3; 42#13]; [2; 30#13]]%Q
  /\ LinAlg.lu_decomposition Qops [[4; 3; 2]; [2; 1; 3]; [3; 4; 1]]%Q =
     Ok ([[1; 0; 0]; [1#2; 1; 0]; [3#4; -7#2; 1]], [[4; 3; 2]; [0; -1#2; 2]; [0; 0; 13#2]])%Q
  /\ Linalg.lu_decomposition Qops [[0; 1]; [1; 0]]%Q = GOk ([[1; 0]; [0; 1]], [[0; 1]; [0; 0]])%Q
  /\ Linalg.matrix_multiply Qops [[4; 3]; [2; 1]]%Q [[1; 2]; [3; 4]; [5; 6]]%Q = GErr GeomdlError.
Proof. repeat split; vm_compute; reflexivity. Qed.

(* ---- second round (C16): add to the Require line  Gen.PreludeExt Gen.LinalgMat Proofs.GenTieLib2 Proofs.GenTieMat
   Proofs.GenTieMatSolve Proofs.GenTieBinom Proofs.GenTieDegree (and Model.Degree for the binomial) ---- *)
From NV Require Import Gen.PreludeExt Gen.LinalgMat Proofs.GenTieMat Proofs.GenTieMatSolve Proofs.GenTieBinom.

(* [G] linalg.matrix_identity (the function under its lru_cache decorator) *)
Theorem C16_gen_matrix_identity_R : forall n : nat, LinalgMat.matrix_identity Rops (Z.of_nat n) = GOk (LinAlg.matrix_identity Rops n).
Proof. exact matrix_identity_tie_R. Qed.
Print Assumptions C16_gen_matrix_identity_R.
Theorem C16_gen_matrix_identity_Q : forall n : nat, LinalgMat.matrix_identity Qops (Z.of_nat n) = GOk (LinAlg.matrix_identity Qops n).
Proof. exact matrix_identity_tie_Q. Qed.
Print Assumptions C16_gen_matrix_identity_Q.

(* [G] linalg.matrix_pivot: `sign` changes the shape of the result, so the translator emits one function per value;
   pivot_out m = pivot_with (identity) m = what LinAlg.matrix_pivot returns on a square matrix (model_matrix_pivot);
   wf: the matrix is square *)
Theorem C16_gen_matrix_pivot_R : forall m : list (list R), is_square m = true ->
  LinalgMat.matrix_pivot__sign_false Rops m = GOk (fst (fst (pivot_out Rops m)), snd (fst (pivot_out Rops m))).
Proof. exact matrix_pivot_tie_R. Qed.
Print Assumptions C16_gen_matrix_pivot_R.
Theorem C16_gen_matrix_pivot_Q : forall m : list (list Q), is_square m = true ->
  LinalgMat.matrix_pivot__sign_false Qops m = GOk (fst (fst (pivot_out Qops m)), snd (fst (pivot_out Qops m))).
Proof. exact matrix_pivot_tie_Q. Qed.
Print Assumptions C16_gen_matrix_pivot_Q.
Theorem C16_gen_matrix_pivot_sign_R : forall m : list (list R), is_square m = true ->
  LinalgMat.matrix_pivot__sign_true Rops m =
  GOk (fst (fst (pivot_out Rops m)), snd (fst (pivot_out Rops m)), sign_of Rops (snd (pivot_out Rops m))).
Proof. exact matrix_pivot_sign_tie_R. Qed.
Print Assumptions C16_gen_matrix_pivot_sign_R.
Theorem C16_gen_matrix_pivot_sign_Q : forall m : list (list Q), is_square m = true ->
  LinalgMat.matrix_pivot__sign_true Qops m =
  GOk (fst (fst (pivot_out Qops m)), snd (fst (pivot_out Qops m)), sign_of Qops (snd (pivot_out Qops m))).
Proof. exact matrix_pivot_sign_tie_Q. Qed.
Print Assumptions C16_gen_matrix_pivot_sign_Q.
Theorem C16_model_matrix_pivot_R : forall m : list (list R), is_square m = true -> LinAlg.matrix_pivot Rops m = Ok (pivot_out Rops m).
Proof. exact (model_matrix_pivot Rops). Qed.
Print Assumptions C16_model_matrix_pivot_R.

(* [G] linalg.matrix_determinant; wf: the matrix is square; every square matrix, singular or not *)
Theorem C16_gen_matrix_determinant_R : forall m : list (list R), is_square m = true ->
  LinalgMat.matrix_determinant Rops m = res_to_gres (fun x => x) ValueError IndexError (LinAlg.matrix_determinant Rops m).
Proof. exact matrix_determinant_tie_R. Qed.
Print Assumptions C16_gen_matrix_determinant_R.
Theorem C16_gen_matrix_determinant_Q : forall m : list (list Q), is_square m = true ->
  LinalgMat.matrix_determinant Qops m = res_to_gres (fun x => x) ValueError IndexError (LinAlg.matrix_determinant Qops m).
Proof. exact matrix_determinant_tie_Q. Qed.
Print Assumptions C16_gen_matrix_determinant_Q.

(* [G] linalg.matrix_inverse; wf: square, non-empty, no zero on the diagonals of the LU factors of the pivoted matrix
   (the raising case ZeroDivisionError <-> Crash is not tied, as for lu_solve) *)
Theorem C16_gen_matrix_inverse_R : forall m L U : list (list R),
  is_square m = true -> m <> [] -> LinAlg.doolittle Rops (fst (fst (pivot_out Rops m))) = (L, U) ->
  (forall i, i < length m -> oeqb Rops (get2 Rops L i i) 0%R = false /\ oeqb Rops (get2 Rops U i i) 0%R = false) ->
  LinalgMat.matrix_inverse Rops m = res_to_gres (fun x => x) ValueError IndexError (LinAlg.matrix_inverse Rops m)
  /\ exists x, LinAlg.matrix_inverse Rops m = Ok x.
Proof. exact matrix_inverse_tie_R. Qed.
Print Assumptions C16_gen_matrix_inverse_R.
Theorem C16_gen_matrix_inverse_Q : forall m L U : list (list Q),
  is_square m = true -> m <> [] -> LinAlg.doolittle Qops (fst (fst (pivot_out Qops m))) = (L, U) ->
  (forall i, i < length m -> oeqb Qops (get2 Qops L i i) 0%Q = false /\ oeqb Qops (get2 Qops U i i) 0%Q = false) ->
  LinalgMat.matrix_inverse Qops m = res_to_gres (fun x => x) ValueError IndexError (LinAlg.matrix_inverse Qops m)
  /\ exists x, LinAlg.matrix_inverse Qops m = Ok x.
Proof. exact matrix_inverse_tie_Q. Qed.
Print Assumptions C16_gen_matrix_inverse_Q.

(* [G] linalg.lu_factor (as repaired: b := P b); wf: A square, b non-empty with len(b) = len(A), rows of b not shorter
   than the first, no zero on the diagonals of the factors *)
Theorem C16_gen_lu_factor_R : forall A b L U : list (list R),
  is_square A = true -> b <> [] -> length b = length A -> (forall r, In r b -> length (hd [] b) <= length r) ->
  LinAlg.doolittle Rops (fst (fst (pivot_out Rops A))) = (L, U) ->
  (forall i, i < length A -> oeqb Rops (get2 Rops L i i) 0%R = false /\ oeqb Rops (get2 Rops U i i) 0%R = false) ->
  LinalgMat.lu_factor Rops A b = res_to_gres (fun x => x) ValueError IndexError (LinAlg.lu_factor Rops A b)
  /\ exists x, LinAlg.lu_factor Rops A b = Ok x.
Proof. exact lu_factor_tie_R. Qed.
Print Assumptions C16_gen_lu_factor_R.
Theorem C16_gen_lu_factor_Q : forall A b L U : list (list Q),
  is_square A = true -> b <> [] -> length b = length A -> (forall r, In r b -> length (hd [] b) <= length r) ->
  LinAlg.doolittle Qops (fst (fst (pivot_out Qops A))) = (L, U) ->
  (forall i, i < length A -> oeqb Qops (get2 Qops L i i) 0%Q = false /\ oeqb Qops (get2 Qops U i i) 0%Q = false) ->
  LinalgMat.lu_factor Qops A b = res_to_gres (fun x => x) ValueError IndexError (LinAlg.lu_factor Qops A b)
  /\ exists x, LinAlg.lu_factor Qops A b = Ok x.
Proof. exact lu_factor_tie_Q. Qed.
Print Assumptions C16_gen_lu_factor_Q.

(* [G] linalg.binomial_coefficient = float(k! / ((k-i)! i!)): equal to the model of Degree.v (ofnatb (binom k i)) and to the
   injection of the natural number of LinAlg.v, under bin_laws (exact division of injected integers; Rops and Qops) *)
Theorem C16_gen_binomial_coefficient_R : forall k i : nat,
  LinalgMat.binomial_coefficient Rops (Z.of_nat k) (Z.of_nat i) = GOk (Degree.ofnatb Rops (N.to_nat (LinAlg.binomial_coefficient k i))).
Proof. exact binomial_coefficient_tie_N_R. Qed.
Print Assumptions C16_gen_binomial_coefficient_R.
Theorem C16_gen_binomial_coefficient_Q : forall k i : nat,
  LinalgMat.binomial_coefficient Qops (Z.of_nat k) (Z.of_nat i) = GOk (Degree.ofnatb Qops (N.to_nat (LinAlg.binomial_coefficient k i))).
Proof. exact binomial_coefficient_tie_N_Q. Qed.
Print Assumptions C16_gen_binomial_coefficient_Q.

Example C16_gen_nonvacuous2 :
  LinalgMat.matrix_determinant Qops [[0; 2; 1]; [1; 1; 0]; [2; 1; 3]]%Q = GOk (-7)%Q
  /\ LinalgMat.matrix_inverse Qops [[0; 2; 1]; [1; 1; 0]; [2; 1; 3]]%Q = GOk [[-3#7; 5#7; 1#7]; [3#7; 2#7; -1#7]; [1#7; -4#7; 2#7]]%Q
  /\ LinalgMat.lu_factor Qops [[0; 2; 1]; [1; 1; 0]; [2; 1; 3]]%Q [[1; 2]; [3; 4]; [5; 6]]%Q = GOk [[17#7; 20#7]; [4#7; 8#7]; [-1#7; -2#7]]%Q
  /\ LinalgMat.binomial_coefficient Qops 20 7 = GOk 77520%Q.
Proof. repeat split; vm_compute; reflexivity. Qed.

From NV Require Import Gen.PreludeExt Gen.HelpersB Proofs.GenTieKnotRemove.
From NV Require Import Gen.HelpersB Proofs.GenTieElev.
From NV Require Import Model.Geom2D Model.Voxel Gen.PreludeExt Gen.LinalgGeom Gen.Voxelize Proofs.GenTieGeom Proofs.GenTieVoxel
  Proofs.GenTieHull.
From NV Require Import Model.Hull Gen.Utilities Proofs.GenTieBBox.
From NV Require Import Model.Fit Gen.Fitting Proofs.GenTieFit.
From NV Require Import Model.Derivs Proofs.GenTieDerivCpts.
From NV Require Import Proofs.GenTieArr4 Proofs.GenTieDerivSurf.
From NV Require Import Model.KnotRefine Proofs.GenTieRefine.
From NV Require Import Model.Eval Gen.Evaluators Proofs.GenTieEvalLib Proofs.GenTieEvalCurve Proofs.GenTieEvalSurf Proofs.GenTieEvalVol.
From NV Require Import Model.Derivs Gen.HelpersC Proofs.GenTieBinom Proofs.GenTieBasisAll Proofs.GenTieEvalDerivCurve Proofs.GenTieEvalDerivCurve2.
From NV Require Import Proofs.GenTieEvalDerivSurf Proofs.GenTieEvalDerivSurfRat Proofs.GenTieEvalDerivSurf2.
From NV Require Import Model.Weights Gen.Compatibility Proofs.GenTieCompat.
From NV Require Import Model.Layout Gen.Compatibility Proofs.GenTieFlip.
From NV Require Import Model.Layout Model.Voxel Model.Hull Gen.OperationsInternal Proofs.GenTieFindCtrlpts.
From NV Require Import Model.Layout Model.Hull Gen.OperationsInternal Proofs.GenTieFindCtrlpts.
From NV Require Import Model.InsertKnot Gen.UtilitiesB Proofs.GenTieCheckParams.
From NV Require Import Model.Fit Gen.PreludeExt2 Gen.Fitting Gen.FittingB Proofs.GenTieFit Proofs.GenTieFitB.
From NV Require Import Proofs.GenTieFitSurf.
From NV Require Import Gen.FittingC Proofs.GenTieApprox.

From NV Require Import Gen.PreludeExt2 Gen.LinalgB Proofs.GenTieLinAlgB.

(* [G] linalg.vector_generate (normalize = False; True needs a square root): ALL inputs *)
Theorem C16_gen_vector_generate_R : forall (s e : list R),
  LinalgB.vector_generate__normalize_false Rops s e = res_to_gres (fun x => x) ValueError IndexError (LinAlg.vector_generate Rops s e).
Proof. exact vector_generate_tie_R. Qed.
Print Assumptions C16_gen_vector_generate_R.
Theorem C16_gen_vector_generate_Q : forall (s e : list Q),
  LinalgB.vector_generate__normalize_false Qops s e = res_to_gres (fun x => x) ValueError IndexError (LinAlg.vector_generate Qops s e).
Proof. exact vector_generate_tie_Q. Qed.
Print Assumptions C16_gen_vector_generate_Q.

(* [G] linalg.point_translate: ALL inputs *)
Theorem C16_gen_point_translate_R : forall (p v : list R),
  LinalgB.point_translate Rops p v = res_to_gres (fun x => x) ValueError IndexError (LinAlg.point_translate Rops p v).
Proof. exact point_translate_tie_R. Qed.
Print Assumptions C16_gen_point_translate_R.
Theorem C16_gen_point_translate_Q : forall (p v : list Q),
  LinalgB.point_translate Qops p v = res_to_gres (fun x => x) ValueError IndexError (LinAlg.point_translate Qops p v).
Proof. exact point_translate_tie_Q. Qed.
Print Assumptions C16_gen_point_translate_Q.

(* [G] linalg.point_mid: ALL inputs; the model's `half` is the literal 0.5 = olit K 1 2 *)
Theorem C16_gen_point_mid_R : forall (a b : list R),
  LinalgB.point_mid Rops a b = res_to_gres (fun x => x) ValueError IndexError (LinAlg.point_mid Rops (olit Rops 1 2) a b).
Proof. exact point_mid_tie_R. Qed.
Print Assumptions C16_gen_point_mid_R.
Theorem C16_gen_point_mid_Q : forall (a b : list Q),
  LinalgB.point_mid Qops a b = res_to_gres (fun x => x) ValueError IndexError (LinAlg.point_mid Qops (olit Qops 1 2) a b).
Proof. exact point_mid_tie_Q. Qed.
Print Assumptions C16_gen_point_mid_Q.

(* [G] linalg.vector_is_zero: ALL inputs, any tolerance (the default is 10e-8) *)
Theorem C16_gen_vector_is_zero_R : forall (v : list R) (tol : R),
  LinalgB.vector_is_zero Rops v tol = GOk (LinAlg.vector_is_zero Rops tol v).
Proof. exact vector_is_zero_tie_R. Qed.
Print Assumptions C16_gen_vector_is_zero_R.
Theorem C16_gen_vector_is_zero_Q : forall (v : list Q) (tol : Q),
  LinalgB.vector_is_zero Qops v tol = GOk (LinAlg.vector_is_zero Qops tol v).
Proof. exact vector_is_zero_tie_Q. Qed.
Print Assumptions C16_gen_vector_is_zero_Q.

(* [G] linalg.vector_mean( *args ): the tuple of the vectors is the list vs; ALL inputs (no vector: IndexError <-> Crash) *)
Theorem C16_gen_vector_mean_R : forall (vs : list (list R)),
  LinalgB.vector_mean Rops vs = res_to_gres (fun x => x) ValueError IndexError (LinAlg.vector_mean Rops vs).
Proof. exact vector_mean_tie_R. Qed.
Print Assumptions C16_gen_vector_mean_R.
Theorem C16_gen_vector_mean_Q : forall (vs : list (list Q)),
  LinalgB.vector_mean Qops vs = res_to_gres (fun x => x) ValueError IndexError (LinAlg.vector_mean Qops vs).
Proof. exact vector_mean_tie_Q. Qed.
Print Assumptions C16_gen_vector_mean_Q.

(* [G] linalg.matrix_scalar; wf: a first row, no row shorter than the first.  The EMPTY matrix is a model-vs-source mismatch (Python returns [], the model Crash: Example matrix_scalar_empty_mismatch) *)
Theorem C16_gen_matrix_scalar_R : forall (m : list (list R)) (s : R),
  m <> [] -> (forall r, In r m -> length (hd [] m) <= length r) ->
  LinalgB.matrix_scalar Rops m s = res_to_gres (fun x => x) ValueError IndexError (LinAlg.matrix_scalar Rops m s).
Proof. exact matrix_scalar_tie_R. Qed.
Print Assumptions C16_gen_matrix_scalar_R.
Theorem C16_gen_matrix_scalar_Q : forall (m : list (list Q)) (s : Q),
  m <> [] -> (forall r, In r m -> length (hd [] m) <= length r) ->
  LinalgB.matrix_scalar Qops m s = res_to_gres (fun x => x) ValueError IndexError (LinAlg.matrix_scalar Qops m s).
Proof. exact matrix_scalar_tie_Q. Qed.
Print Assumptions C16_gen_matrix_scalar_Q.
Example C16_gen_leftovers_nonvacuous :
  LinalgB.point_mid Qops [1; 2; 3]%Q [3; 6; 4]%Q = GOk [2; 4; 7 # 2]%Q
  /\ LinAlg.point_mid Qops (olit Qops 1 2) [1; 2; 3]%Q [3; 6; 4]%Q = Ok [2; 4; 7 # 2]%Q
  /\ LinalgB.matrix_scalar Qops [] 2%Q = GOk [] /\ LinAlg.matrix_scalar Qops [] 2%Q = Crash.
Proof. split; [|split; [|split]]; vm_compute; reflexivity. Qed.



From NV Require Import Model.Geom2D Proofs.GenTieLinAlgSqrt.

(* [G] linalg.vector_magnitude: ALL inputs *)
Theorem C16_gen_vector_magnitude_R : forall (v : list R) (py_sqrt : R -> gres R),
  LinalgB.vector_magnitude Rops v py_sqrt = py_sqrt (LinAlg.vector_norm2 Rops v).
Proof. exact vector_magnitude_tie_R. Qed.
Print Assumptions C16_gen_vector_magnitude_R.
Theorem C16_gen_vector_magnitude_Q : forall (v : list Q) (py_sqrt : Q -> gres Q),
  LinalgB.vector_magnitude Qops v py_sqrt = py_sqrt (LinAlg.vector_norm2 Qops v).
Proof. exact vector_magnitude_tie_Q. Qed.
Print Assumptions C16_gen_vector_magnitude_Q.

(* [G] linalg.vector_normalize at Rops: the unit vector; ValueError (empty or zero vector) <-> Rejected; the rounding to `decimals` is the identity *)
Theorem C16_gen_vector_normalize_R_sqrt : forall (v : list R) (decimals : Z),
  LinalgB.vector_normalize Rops v decimals (fun x => GOk (sqrt x)) =
  match LinAlg.vector_normalize Rops v with
  | Ok (v', n2) => GOk (map (fun x => (x / sqrt n2)%R) v')
  | _ => GErr ValueError
  end.
Proof. exact vector_normalize_tie_R_sqrt. Qed.
Print Assumptions C16_gen_vector_normalize_R_sqrt.
(* [G] ... and for any scalar instance: every total py_sqrt (sq = its value) with 0 < sq x <-> 0 < x at x = |v|^2 *)
Theorem C16_gen_vector_normalize_Q : forall (v : list Q) (decimals : Z) (py_sqrt : Q -> gres Q) (sq : Q -> Q),
  (forall x, py_sqrt x = GOk (sq x)) ->
  oltb Qops (o0 Qops) (sq (LinAlg.vector_norm2 Qops v)) = oltb Qops (o0 Qops) (LinAlg.vector_norm2 Qops v) ->
  LinalgB.vector_normalize Qops v decimals py_sqrt =
  match LinAlg.vector_normalize Qops v with
  | Ok (v', n2) => GOk (map (fun x => odiv Qops x (sq n2)) v')
  | _ => GErr ValueError
  end.
Proof. exact vector_normalize_tie_Q. Qed.
Print Assumptions C16_gen_vector_normalize_Q.

