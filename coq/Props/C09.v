(* C09 - weights, weighted and unweighted control points stay mutually consistent.
   Statements only; proofs in Proofs/WeightsR.v.  Model: Model/Weights.v (compatibility.py helpers, the
   ctrlptsw / ctrlpts / weights view machine of NURBS.Curve|Surface|Volume, CPGen.GridWeighted as repaired by
   fixes/C09-gridweighted-own-weight.diff), Model/Eval.v (evaluation). *)
From Coq Require Import List QArith Reals Lra Lia Arith Bool.
From NV Require Import Scalar.Ops Model.Common Model.Basis Model.Knots Model.Eval Model.Weights Proofs.BasisR Proofs.WeightsR.
From NV Require Import Proofs.EvalR Proofs.WeightsUnit.
Import ListNotations.

(* [G] the helper conversions are mutually inverse (all nets, all non-zero weights) *)
Theorem C09_separate_combine_id : forall (P : list (list R)) (W : list R),
  length P = length W -> Forall (fun w => w <> 0%R) W ->
  separate_cw Rops (combine_cw Rops P W) = (P, W).
Proof. exact separate_combine_id. Qed.
Print Assumptions C09_separate_combine_id.

Theorem C09_combine_separate_id : forall (Pw : list (list R)),
  Forall (fun ptw => ptw <> [] /\ lastw Rops ptw <> 0%R) Pw ->
  combine_cw Rops (fst (separate_cw Rops Pw)) (snd (separate_cw Rops Pw)) = Pw.
Proof. exact combine_separate_id. Qed.
Print Assumptions C09_combine_separate_id.

(* [G] (x,y,z,w) <-> (xw,yw,zw,w) converters, 1-D and 2-D *)
Theorem C09_ctrlptsw_weights_inverse : forall (P : list (list R)), Forall okpt P ->
  map (gen_u_pt Rops) (map (gen_w_pt Rops) P) = P /\ map (gen_w_pt Rops) (map (gen_u_pt Rops) P) = P.
Proof. exact ctrlptsw_weights_inverse. Qed.
Print Assumptions C09_ctrlptsw_weights_inverse.

Theorem C09_ctrlptsw_weights_inverse2d : forall (G : list (list (list R))), Forall (Forall okpt) G ->
  map (map (gen_u_pt Rops)) (map (map (gen_w_pt Rops)) G) = G /\ map (map (gen_w_pt Rops)) (map (map (gen_u_pt Rops)) G) = G.
Proof. exact ctrlptsw_weights_inverse2d. Qed.
Print Assumptions C09_ctrlptsw_weights_inverse2d.

(* the Python-level functions (with their exceptions) succeed on such inputs and compose to the identity *)
Theorem C09_generate_roundtrip_res : forall (P : list (list R)), Forall okpt P ->
  res_bind (generate_ctrlptsw Rops P) (generate_ctrlpts_weights Rops) = Ok P.
Proof. exact generate_roundtrip_res. Qed.
Print Assumptions C09_generate_roundtrip_res.

(* [G] invariant by induction over ANY list of setter/getter operations, for any scalar type (hence also for the
   executed Qops instance): after every history the ctrlpts getter returns the unweighted points of the current
   homogeneous points, the weights getter their last coordinates, and the getters leave the definition alone *)
Theorem C09_views_consistent_after_any_history : forall (T : Type) (K : ops T) (minlen mindim : nat) cpw0 (ops : list (@vop T)),
  let s := fst (vrun K minlen mindim (mkNview cpw0 [] []) ops) in
  (forall s' x, vstep K minlen mindim s VGetPts = (s', Ok x) -> x = VoPts (map (unw K) (vw_cpw s)) /\ vw_cpw s' = vw_cpw s) /\
  (forall s' x, vstep K minlen mindim s VGetWts = (s', Ok x) -> x = VoWts (map (lastw K) (vw_cpw s)) /\ vw_cpw s' = vw_cpw s) /\
  (forall s' x, vstep K minlen mindim s VGetCpw = (s', Ok x) -> x = VoPts (vw_cpw s) /\ s' = s).
Proof. intros T K ml md. exact (views_consistent_after_any_history K ml md). Qed.
Print Assumptions C09_views_consistent_after_any_history.

(* [G] the invariant itself (cache empty or equal to the derived view) is preserved by every operation *)
Theorem C09_view_invariant_step : forall (T : Type) (K : ops T) (minlen mindim : nat) (s : @nview T) (o : vop),
  vinv K s -> vinv K (fst (vstep K minlen mindim s o)).
Proof. intros T K ml md. exact (vinv_step K ml md). Qed.
Print Assumptions C09_view_invariant_step.

(* [G] what a successful setter installs: the written view combined with the other view of the current definition *)
Theorem C09_setter_spec : forall (T : Type) (K : ops T) (minlen mindim : nat) (s : @nview T), vinv K s ->
  (forall v s', vstep K minlen mindim s (VSetCpw v) = (s', Ok VoNone) -> vw_cpw s' = v) /\
  (forall v s', vstep K minlen mindim s (VSetPts v) = (s', Ok VoNone) ->
     vw_cpw s' = combine_cw K v (if is_nil (vw_cpw s) then ones K (length v) else map (lastw K) (vw_cpw s))) /\
  (forall w s', vstep K minlen mindim s (VSetWts w) = (s', Ok VoNone) -> vw_cpw s' = combine_cw K (map (unw K) (vw_cpw s)) w).
Proof. intros T K ml md. exact (vset_spec K ml md). Qed.
Print Assumptions C09_setter_spec.

(* [G] setting one view and reading the others round-trips (non-zero weights) *)
Theorem C09_set_view_roundtrip : forall minlen mindim (s s1 : @nview R), vinv Rops s ->
  (forall v, vstep Rops minlen mindim s (VSetPts v) = (s1, Ok VoNone) ->
     let W := if is_nil (vw_cpw s) then ones Rops (length v) else map (lastw Rops) (vw_cpw s) in
     length v = length W -> Forall (fun w => w <> 0%R) W ->
     (exists s2, vstep Rops minlen mindim s1 VGetPts = (s2, Ok (VoPts v))) /\ (exists s2, vstep Rops minlen mindim s1 VGetWts = (s2, Ok (VoWts W)))) /\
  (forall w, vstep Rops minlen mindim s (VSetWts w) = (s1, Ok VoNone) ->
     let P := map (unw Rops) (vw_cpw s) in
     length P = length w -> Forall (fun x => x <> 0%R) w ->
     (exists s2, vstep Rops minlen mindim s1 VGetPts = (s2, Ok (VoPts P))) /\ (exists s2, vstep Rops minlen mindim s1 VGetWts = (s2, Ok (VoWts w)))).
Proof. exact set_view_roundtrip. Qed.
Print Assumptions C09_set_view_roundtrip.

(* [G] multiplying all weights by one non-zero (in particular positive) constant moves no evaluated point:
   all degrees, knot vectors, nets, parameters; curves, surfaces and volumes *)
Theorem C09_weight_scaling_invariant_curve : forall dim p U (P : list (list R)) (W : list R) c u, c <> 0%R ->
  project Rops (curve_point Rops dim p U (combine_cw Rops P (map (Rmult c) W)) u) =
  project Rops (curve_point Rops dim p U (combine_cw Rops P W) u).
Proof. exact curve_weight_scaling. Qed.
Print Assumptions C09_weight_scaling_invariant_curve.

Theorem C09_weight_scaling_invariant_surface : forall dim pu pv Uu Uv su sv (P : list (list R)) (W : list R) c u v, c <> 0%R ->
  project Rops (surface_point Rops dim pu pv Uu Uv su sv (combine_cw Rops P (map (Rmult c) W)) u v) =
  project Rops (surface_point Rops dim pu pv Uu Uv su sv (combine_cw Rops P W) u v).
Proof. exact surface_weight_scaling. Qed.
Print Assumptions C09_weight_scaling_invariant_surface.

Theorem C09_weight_scaling_invariant_volume : forall dim pu pv pw Uu Uv Uw su sv sw (P : list (list R)) (W : list R) c u v w, c <> 0%R ->
  project Rops (volume_point Rops dim pu pv pw Uu Uv Uw su sv sw (combine_cw Rops P (map (Rmult c) W)) u v w) =
  project Rops (volume_point Rops dim pu pv pw Uu Uv Uw su sv sw (combine_cw Rops P W) u v w).
Proof. exact volume_weight_scaling. Qed.
Print Assumptions C09_weight_scaling_invariant_volume.

(* the full statement "a shape with unit weights evaluates like the non-rational shape" for all three kinds *)
Definition C09_unit_weights_same_shape_full : Prop :=
  (forall (U : list R) (P : list (list R)) (p dim : nat) (u : R),
     sortedR U -> (p < length P)%nat -> (length P + p < length U)%nat ->
     (forall i, (i < length P)%nat -> length (nth i P []) = dim) -> (knR U p <= u <= knR U (length P))%R ->
     project Rops (curve_point Rops (S dim) p U (to_rational Rops P) u) = curve_point Rops dim p U P u) /\
  (forall dim pu pv Uu Uv su sv (P : list (list R)) u v,
     project Rops (surface_point Rops (S dim) pu pv Uu Uv su sv (to_rational Rops P) u v) = surface_point Rops dim pu pv Uu Uv su sv P u v).
(* [G for curves on the half-open domain] all degrees, all sorted knot vectors (any multiplicities), all nets:
   the denominator is 1 by the partition of unity (Proofs/BasisR.bf_partition_unity).  Partial: the domain end
   point and surfaces / volumes are only tied by the correspondence families convert / scaling. *)
Theorem C09_unit_weights_same_shape_curve_partial : forall (U : list R) (P : list (list R)) (p dim : nat) (u : R),
  sortedR U -> (p < length P)%nat -> (length P + p < length U)%nat ->
  (forall i, (i < length P)%nat -> length (nth i P []) = dim) ->
  (knR U p <= u < knR U (length P))%R ->
  project Rops (curve_point Rops (S dim) p U (to_rational Rops P) u) = curve_point Rops dim p U P u.
Proof. exact unit_weights_curve. Qed.
Print Assumptions C09_unit_weights_same_shape_curve_partial.

(* [G] (repaired code) the weighted grid gives grid point (i, j) its own weight, number j + i * (row length) of the
   flat weight list, for all grids and weight lists *)
Theorem C09_grid_weighted_uses_own_weight : forall (T : Type) (K : ops T) (G : list (list (list T))) (W : list T) i j,
  (i < length G)%nat -> (j < length (nth i G []))%nat ->
  nth j (nth i (gridw K G W) []) [] = wpt K (nth j (nth i G []) []) (nth (j + i * length (nth i G [])) W (o0 K)).
Proof. intros T K. exact (gridw_own_weight K). Qed.
Print Assumptions C09_grid_weighted_uses_own_weight.

(* [G] GridWeighted: after ANY history of generate / weight setters / reads / resets, reading the grid returns
   the weighted grid of the current points and the current weights (no stale cache) *)
Theorem C09_grid_read_after_any_history : forall (T : Type) (K : ops T) (sx sy z : T) (ops : list (@gop T)),
  let s := fst (grun K sx sy z (mkG [] [] []) ops) in
  exists s', gstep K sx sy z s GRead =
    (s', Ok (GoGrid (gridw K (g_pts s) (if is_nil (g_w s) then ones K (glen (g_pts s)) else g_w s)))).
Proof. intros T K sx sy z. exact (gread_after_any_history K sx sy z). Qed.
Print Assumptions C09_grid_read_after_any_history.

(* the pinned GridWeighted (row weight instead of the point's own weight) violates the statement *)
Theorem C09_grid_weighted_pinned_refuted :
  exists (G : list (list (list Q))) (W : list Q), gridw_pinned Qops G W <> gridw Qops G W.
Proof. exists [[[1;1;0]; [1;2;0]]; [[2;1;0]; [2;2;0]]]%Q, [1;2;3;4]%Q. vm_compute. discriminate. Qed.
Print Assumptions C09_grid_weighted_pinned_refuted.

(* ---- non-vacuity examples ---- *)
Example C09_ex_separate_combine :
  separate_cw Qops (combine_cw Qops [[1;2];[3;4];[5;6]]%Q [2;1#2;3]%Q) = ([[1;2];[3;4];[5;6]]%Q, [2;1#2;3]%Q).
Proof. vm_compute. reflexivity. Qed.

(* a history: set weighted points, read ctrlpts (cache filled), set weights, read ctrlpts and weights *)
Example C09_ex_history :
  snd (vrun Qops 3 3 (mkNview [] [] []) [VSetCpw [[0;0;1];[2;4;2];[3;0;1]]%Q; VGetPts; VSetWts [1;1;4]%Q; VGetPts; VGetWts; VGetCpw]) =
  [Ok VoNone; Ok (VoPts [[0;0];[1;2];[3;0]]%Q); Ok VoNone; Ok (VoPts [[0;0];[1;2];[3;0]]%Q); Ok (VoWts [1;1;4]%Q);
   Ok (VoPts [[0;0;1];[1;2;1];[12;0;4]]%Q)].
Proof. vm_compute. reflexivity. Qed.

(* weight scaling on a concrete rational quadratic: hypotheses satisfiable, both sides equal, point is not trivial *)
Example C09_ex_scaling :
  let U := [0;0;0;1#2;1;1;1]%Q in let P := [[0;0];[1;2];[3;0];[4;1]]%Q in let W := [1;2;1;3]%Q in
  project Qops (curve_point Qops 3 2 U (combine_cw Qops P (map (Qmult 5) W)) (1#4)) =
  project Qops (curve_point Qops 3 2 U (combine_cw Qops P W) (1#4)) /\
  project Qops (curve_point Qops 3 2 U (combine_cw Qops P W) (1#4)) = [1; 20#13]%Q.
Proof. vm_compute. split; reflexivity. Qed.

Example C09_ex_unit_weights :
  let U := [0;0;0;1#2;1;1;1]%Q in let P := [[0;0];[1;2];[3;0];[4;1]]%Q in
  (2 < length P)%nat /\ (length P + 2 < length U)%nat /\ (kn Qops U 2 <= 1#4)%Q /\ (1#4 < kn Qops U (length P))%Q /\
  project Qops (curve_point Qops 3 2 U (to_rational Qops P) (1#4)) = curve_point Qops 2 2 U P (1#4).
Proof. cbv zeta. repeat split; try (vm_compute; congruence); try (cbn; lia). Qed.

Example C09_ex_grid :
  snd (grun Qops 2%Q 2%Q 0%Q (mkG [] [] []) [GGenerate 1 2; GRead; GSetList [1;2;3;4;5;6]%Q; GRead]) =
  [Ok GoNone;
   Ok (GoGrid [[[0;0;0;1];[0;1;0;1];[0;2;0;1]]; [[2;0;0;1];[2;1;0;1];[2;2;0;1]]]%Q);
   Ok GoNone;
   Ok (GoGrid [[[0;0;0;1];[0;2;0;2];[0;6;0;3]]; [[8;0;0;4];[10;5;0;5];[12;12;0;6]]]%Q)].
Proof. vm_compute. reflexivity. Qed.

(* ====================== round 2 (Proofs/WeightsUnit.v): unit weights give the same shape - curves, surfaces, volumes, every parameter ====================== *)
(* [G] curves: every sorted knot vector, every u (closed domain included) -- this is the curve half of C09_unit_weights_same_shape_full *)
Theorem C09_unit_weights_same_shape_curve : forall (U : list R) (P : list (list R)) (p dim : nat) (u : R),
  sortedR U -> (p < length P)%nat -> (length P + p < length U)%nat ->
  (forall i, (i < length P)%nat -> length (nth i P []) = dim) ->
  (knR U p <= u <= knR U (length P))%R ->
  project Rops (curve_point Rops (S dim) p U (to_rational Rops P) u) = curve_point Rops dim p U P u.
Proof. exact unit_weights_curve_closed. Qed.
Print Assumptions C09_unit_weights_same_shape_curve.

Theorem C09_unit_weights_same_shape_curve_any_parameter : forall (U : list R) (P : list (list R)) (p dim : nat) (u : R),
  sortedR U -> (p < length P)%nat -> (length P + p < length U)%nat ->
  (forall i, (i < length P)%nat -> length (nth i P []) = dim) ->
  project Rops (curve_point Rops (S dim) p U (to_rational Rops P) u) = curve_point Rops dim p U P u.
Proof. exact unit_weights_curve_all. Qed.
Print Assumptions C09_unit_weights_same_shape_curve_any_parameter.

Theorem C09_unit_weights_same_shape_surface : forall (Uu Uv : list R) (P : list (list R)) (pu pv su sv dim : nat) (u v : R),
  sortedR Uu -> sortedR Uv -> (forall i, (i < length P)%nat -> length (nth i P []) = dim) -> length P = (su * sv)%nat ->
  (pu < su)%nat -> (pv < sv)%nat -> (su + pu < length Uu)%nat -> (sv + pv < length Uv)%nat ->
  project Rops (surface_point Rops (S dim) pu pv Uu Uv su sv (to_rational Rops P) u v) = surface_point Rops dim pu pv Uu Uv su sv P u v.
Proof. exact unit_weights_surface_all. Qed.
Print Assumptions C09_unit_weights_same_shape_surface.

Theorem C09_unit_weights_same_shape_volume : forall (Uu Uv Uw : list R) (P : list (list R)) (pu pv pw su sv sw dim : nat) (u v w : R),
  sortedR Uu -> sortedR Uv -> sortedR Uw -> (forall i, (i < length P)%nat -> length (nth i P []) = dim) -> length P = (su * sv * sw)%nat ->
  (pu < su)%nat -> (pv < sv)%nat -> (pw < sw)%nat ->
  (su + pu < length Uu)%nat -> (sv + pv < length Uv)%nat -> (sw + pw < length Uw)%nat ->
  project Rops (volume_point Rops (S dim) pu pv pw Uu Uv Uw su sv sw (to_rational Rops P) u v w) =
  volume_point Rops dim pu pv pw Uu Uv Uw su sv sw P u v w.
Proof. exact unit_weights_volume_all. Qed.
Print Assumptions C09_unit_weights_same_shape_volume.

(* the Definition C09_unit_weights_same_shape_full is false as written: its surface half has no hypotheses (ragged net) *)
Theorem C09_unit_weights_same_shape_full_refuted : ~ C09_unit_weights_same_shape_full.
Proof. intros [_ H]. exact (unit_weights_surface_unconditional_refuted H). Qed.
Print Assumptions C09_unit_weights_same_shape_full_refuted.

(* the repaired full statement (well-formed nets), curves + surfaces + volumes, closed domains *)
Theorem C09_unit_weights_same_shape_wf : unit_weights_same_shape_wf.
Proof. exact unit_weights_same_shape_wf_holds. Qed.
Print Assumptions C09_unit_weights_same_shape_wf.

(* object level: bspline_to_nurbs keeps degrees / knots / sizes, sets rational and installs the unit-weight net *)
Theorem C09_bspline_to_nurbs_same_points_surface : forall (Uu Uv : list R) (P : list (list R)) (pu pv su sv dim : nat) (uv : R * R),
  sortedR Uu -> sortedR Uv -> (forall i, (i < length P)%nat -> length (nth i P []) = dim) -> length P = (su * sv)%nat ->
  (pu < su)%nat -> (pv < sv)%nat -> (su + pu < length Uu)%nat -> (sv + pv < length Uv)%nat ->
  obj_surface_point Rops true dim pu pv Uu Uv su sv (to_rational Rops P) uv = obj_surface_point Rops false dim pu pv Uu Uv su sv P uv.
Proof. exact unit_weights_obj_surface. Qed.
Print Assumptions C09_bspline_to_nurbs_same_points_surface.
Theorem C09_bspline_to_nurbs_same_points_volume : forall (Uu Uv Uw : list R) (P : list (list R)) (pu pv pw su sv sw dim : nat) (uvw : R * R * R),
  sortedR Uu -> sortedR Uv -> sortedR Uw -> (forall i, (i < length P)%nat -> length (nth i P []) = dim) -> length P = (su * sv * sw)%nat ->
  (pu < su)%nat -> (pv < sv)%nat -> (pw < sw)%nat ->
  (su + pu < length Uu)%nat -> (sv + pv < length Uv)%nat -> (sw + pw < length Uw)%nat ->
  obj_volume_point Rops true dim pu pv pw Uu Uv Uw su sv sw (to_rational Rops P) uvw = obj_volume_point Rops false dim pu pv pw Uu Uv Uw su sv sw P uvw.
Proof. exact unit_weights_obj_volume. Qed.
Print Assumptions C09_bspline_to_nurbs_same_points_volume.

(* non-vacuity: a 3 x 2 bilinear/linear surface at the corner (1, 1) of the closed domain *)
Example C09_ex_unit_weights_surface_corner :
  let Uu := [0;0;1#2;1;1]%Q in let Uv := [0;0;1;1]%Q in let P := [[0;0;0];[0;1;1];[1;0;2];[1;1;0];[2;0;1];[2;1;3]]%Q in
  project Qops (surface_point Qops 4 1 1 Uu Uv 3 2 (to_rational Qops P) 1%Q 1%Q) = surface_point Qops 3 1 1 Uu Uv 3 2 P 1%Q 1%Q /\
  surface_point Qops 3 1 1 Uu Uv 3 2 P 1%Q 1%Q = [2;1;3]%Q.
Proof. vm_compute. split; reflexivity. Qed.

(* ====================== TRANSLATOR TIE (Proofs/GenTie*.v) ======================
   coq/Gen/*.v is the Gallina rendering of the Python source produced by harness/pytrans.py; every run of ./check regenerates it
   from /repo and compares it function by function with the committed text (evidence: translator_tie).  The theorems below say
   that the hand-written model (the subject of the theorems above) computes, for ALL inputs satisfying the stated
   well-formedness, exactly what the translated source computes.  This block stays LAST in the file: its imports shadow
   model names. *)
From Coq Require Import List QArith Reals Qreals Lia Lra Arith Bool ZArith.
From NV Require Import Scalar.Ops Model.Common Model.Basis Model.Knots Model.KnotIns Model.KnotRem Model.LinAlg Model.Degree
  Gen.Prelude Gen.LinalgInternal Gen.Linalg Gen.Knotvector Gen.Helpers
  Proofs.GenTieSums Proofs.GenTieLinAlg Proofs.GenTieSubst Proofs.GenTieLU Proofs.GenTieLUSolve Proofs.GenTieKnotRem Proofs.GenTieDegree
  Proofs.GenTieLib Proofs.GenTieKnots Proofs.GenTieSpan Proofs.GenTieBasis Proofs.GenTieBasisOne
  Proofs.GenTieDersOne Proofs.GenTieDersLib Proofs.GenTieDers Proofs.GenTieKnotIns.
Local Open Scope nat_scope.
From NV Require Import Gen.PreludeExt Gen.LinalgMat Proofs.GenTieMat Proofs.GenTieMatSolve Proofs.GenTieBinom.
From NV Require Import Gen.PreludeExt Gen.HelpersB Proofs.GenTieKnotRemove.
From NV Require Import Gen.HelpersB Proofs.GenTieElev.
From NV Require Import Model.Geom2D Model.Voxel Gen.PreludeExt Gen.LinalgGeom Gen.Voxelize Proofs.GenTieGeom Proofs.GenTieVoxel
  Proofs.GenTieHull.
From NV Require Import Model.Hull Gen.Utilities Proofs.GenTieBBox.
From NV Require Import Model.Fit Gen.Fitting Proofs.GenTieFit.
From NV Require Import Model.Derivs Proofs.GenTieDerivCpts.
From NV Require Import Proofs.GenTieArr4 Proofs.GenTieDerivSurf.
From NV Require Import Model.KnotRefine Proofs.GenTieRefine.
From NV Require Import Model.Eval Gen.Evaluators Proofs.GenTieEvalLib Proofs.GenTieEvalCurve Proofs.GenTieEvalSurf Proofs.GenTieEvalVol.
From NV Require Import Model.Derivs Gen.HelpersC Proofs.GenTieBinom Proofs.GenTieBasisAll Proofs.GenTieEvalDerivCurve Proofs.GenTieEvalDerivCurve2.
From NV Require Import Proofs.GenTieEvalDerivSurf Proofs.GenTieEvalDerivSurfRat Proofs.GenTieEvalDerivSurf2.

From NV Require Import Model.Weights Gen.Compatibility Proofs.GenTieCompat.

(* [G] compatibility.combine_ctrlpts_weights with explicit weights: total (zip truncates) *)
Theorem C09_gen_combine_ctrlpts_weights_R : forall (P : list (list R)) (W : list R),
  Compatibility.combine_ctrlpts_weights Rops P W = GOk (combine_cw Rops P W).
Proof. exact combine_ctrlpts_weights_tie_R. Qed.
Print Assumptions C09_gen_combine_ctrlpts_weights_R.
Theorem C09_gen_combine_ctrlpts_weights_Q : forall (P : list (list Q)) (W : list Q),
  Compatibility.combine_ctrlpts_weights Qops P W = GOk (combine_cw Qops P W).
Proof. exact combine_ctrlpts_weights_tie_Q. Qed.
Print Assumptions C09_gen_combine_ctrlpts_weights_Q.

(* [G] compatibility.combine_ctrlpts_weights(ctrlpts) (weights=None, the default): unit weights = Weights.to_rational *)
Theorem C09_gen_combine_ctrlpts_weights_none_R : forall (P : list (list R)),
  Compatibility.combine_ctrlpts_weights__weights_none Rops P = GOk (combine_cw Rops P (ones Rops (length P))).
Proof. exact combine_ctrlpts_weights_none_tie_R. Qed.
Print Assumptions C09_gen_combine_ctrlpts_weights_none_R.
Theorem C09_gen_combine_ctrlpts_weights_none_Q : forall (P : list (list Q)),
  Compatibility.combine_ctrlpts_weights__weights_none Qops P = GOk (combine_cw Qops P (ones Qops (length P))).
Proof. exact combine_ctrlpts_weights_none_tie_Q. Qed.
Print Assumptions C09_gen_combine_ctrlpts_weights_none_Q.

(* [G] compatibility.separate_ctrlpts_weights: ALL inputs; the result [ctrlpts, weights] is a pair *)
Theorem C09_gen_separate_ctrlpts_weights_R : forall (Pw : list (list R)),
  Compatibility.separate_ctrlpts_weights Rops Pw =
  res_to_gres (fun x => x) ValueError (first_err (sep_pt_ok Rops) div_err Pw) (Weights.separate_res Rops Pw).
Proof. exact separate_ctrlpts_weights_tie_R. Qed.
Print Assumptions C09_gen_separate_ctrlpts_weights_R.
Theorem C09_gen_separate_ctrlpts_weights_Q : forall (Pw : list (list Q)),
  Compatibility.separate_ctrlpts_weights Qops Pw =
  res_to_gres (fun x => x) ValueError (first_err (sep_pt_ok Qops) div_err Pw) (Weights.separate_res Qops Pw).
Proof. exact separate_ctrlpts_weights_tie_Q. Qed.
Print Assumptions C09_gen_separate_ctrlpts_weights_Q.

(* [G] ... in the form used with Ok results *)
Theorem C09_gen_separate_ctrlpts_weights_ok_R : forall (Pw : list (list R)) r,
  Weights.separate_res Rops Pw = Ok r -> Compatibility.separate_ctrlpts_weights Rops Pw = GOk r.
Proof. exact separate_ctrlpts_weights_ok_R. Qed.
Print Assumptions C09_gen_separate_ctrlpts_weights_ok_R.
Theorem C09_gen_separate_ctrlpts_weights_ok_Q : forall (Pw : list (list Q)) r,
  Weights.separate_res Qops Pw = Ok r -> Compatibility.separate_ctrlpts_weights Qops Pw = GOk r.
Proof. exact separate_ctrlpts_weights_ok_Q. Qed.
Print Assumptions C09_gen_separate_ctrlpts_weights_ok_Q.

(* [G] compatibility.generate_ctrlptsw: ALL inputs (IndexError <-> Crash: an empty point) *)
Theorem C09_gen_generate_ctrlptsw_R : forall (P : list (list R)),
  Compatibility.generate_ctrlptsw Rops P = res_to_gres (fun x => x) ValueError IndexError (Weights.generate_ctrlptsw Rops P).
Proof. exact generate_ctrlptsw_tie_R. Qed.
Print Assumptions C09_gen_generate_ctrlptsw_R.
Theorem C09_gen_generate_ctrlptsw_Q : forall (P : list (list Q)),
  Compatibility.generate_ctrlptsw Qops P = res_to_gres (fun x => x) ValueError IndexError (Weights.generate_ctrlptsw Qops P).
Proof. exact generate_ctrlptsw_tie_Q. Qed.
Print Assumptions C09_gen_generate_ctrlptsw_Q.

(* [G] compatibility.generate_ctrlpts_weights: ALL inputs *)
Theorem C09_gen_generate_ctrlpts_weights_R : forall (P : list (list R)),
  Compatibility.generate_ctrlpts_weights Rops P =
  res_to_gres (fun x => x) ValueError (first_err (div_ok Rops) div_err P) (Weights.generate_ctrlpts_weights Rops P).
Proof. exact generate_ctrlpts_weights_tie_R. Qed.
Print Assumptions C09_gen_generate_ctrlpts_weights_R.
Theorem C09_gen_generate_ctrlpts_weights_Q : forall (P : list (list Q)),
  Compatibility.generate_ctrlpts_weights Qops P =
  res_to_gres (fun x => x) ValueError (first_err (div_ok Qops) div_err P) (Weights.generate_ctrlpts_weights Qops P).
Proof. exact generate_ctrlpts_weights_tie_Q. Qed.
Print Assumptions C09_gen_generate_ctrlpts_weights_Q.

(* [G] compatibility.generate_ctrlptsw2d: ALL inputs *)
Theorem C09_gen_generate_ctrlptsw2d_R : forall (G : list (list (list R))),
  Compatibility.generate_ctrlptsw2d Rops G = res_to_gres (fun x => x) ValueError IndexError (Weights.generate_ctrlptsw2d Rops G).
Proof. exact generate_ctrlptsw2d_tie_R. Qed.
Print Assumptions C09_gen_generate_ctrlptsw2d_R.
Theorem C09_gen_generate_ctrlptsw2d_Q : forall (G : list (list (list Q))),
  Compatibility.generate_ctrlptsw2d Qops G = res_to_gres (fun x => x) ValueError IndexError (Weights.generate_ctrlptsw2d Qops G).
Proof. exact generate_ctrlptsw2d_tie_Q. Qed.
Print Assumptions C09_gen_generate_ctrlptsw2d_Q.

(* [G] compatibility.generate_ctrlpts2d_weights: ALL inputs *)
Theorem C09_gen_generate_ctrlpts2d_weights_R : forall (G : list (list (list R))),
  Compatibility.generate_ctrlpts2d_weights Rops G =
  res_to_gres (fun x => x) ValueError (first_err (forallb (div_ok Rops)) (row_err Rops) G) (Weights.generate_ctrlpts2d_weights Rops G).
Proof. exact generate_ctrlpts2d_weights_tie_R. Qed.
Print Assumptions C09_gen_generate_ctrlpts2d_weights_R.
Theorem C09_gen_generate_ctrlpts2d_weights_Q : forall (G : list (list (list Q))),
  Compatibility.generate_ctrlpts2d_weights Qops G =
  res_to_gres (fun x => x) ValueError (first_err (forallb (div_ok Qops)) (row_err Qops) G) (Weights.generate_ctrlpts2d_weights Qops G).
Proof. exact generate_ctrlpts2d_weights_tie_Q. Qed.
Print Assumptions C09_gen_generate_ctrlpts2d_weights_Q.
Example C09_gen_nonvacuous :
  Compatibility.separate_ctrlpts_weights Qops [[1 # 2; 1; 3 # 2; 1 # 2]; [8; 10; 12; 2]]%Q = GOk ([[1; 2; 3]; [4; 5; 6]], [1 # 2; 2])%Q
  /\ Weights.separate_res Qops [[1 # 2; 1; 3 # 2; 1 # 2]; [8; 10; 12; 2]]%Q = Ok ([[1; 2; 3]; [4; 5; 6]], [1 # 2; 2])%Q
  /\ Compatibility.separate_ctrlpts_weights Qops [[1; 2; 1]; [3; 4; 0]]%Q = GErr ZeroDivisionError
  /\ Weights.separate_res Qops [[1; 2; 1]; [3; 4; 0]]%Q = Crash.
Proof. split; [|split; [|split]]; vm_compute; reflexivity. Qed.

