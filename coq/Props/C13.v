(* C13 - One control-net layout convention across all modules: in the flat control-point list the v index
   varies fastest, then u, then w.  This file only states the property theorems; proofs live under Proofs/.
   All theorems are [G]: every size, every net, any point type A and knot type Kn; nothing is bounded.
   The model (Model/Layout.v) describes construct_volume('u'|'v') and sweep_vector(curve) in their repaired
   form (fixes/C13-construct-volume-uv.diff, fixes/C13-sweep-vector-curve-degree.diff). *)
From Coq Require Import List Arith Bool Lia Reals.
From NV Require Import Model.Common Model.Layout Proofs.LayoutP Proofs.LayoutR Proofs.LayoutC Proofs.LayoutT.
(* not used by the statements: makes the harness comparison helpers part of this file's build closure *)
From NV Require Run.LayoutH.
Import ListNotations.
Open Scope nat_scope.

(* [G] the surface index map (u,v) |-> v + size_v*u is a bijection from the grid onto [0, su*sv), and
   enumerating u outer / v inner lists the flat positions in increasing order *)
Theorem C13_idx2_bijection : forall su sv,
  (forall u v, u < su -> v < sv -> idx2 sv u v < su * sv) /\
  (forall u v u' v', v < sv -> v' < sv -> idx2 sv u v = idx2 sv u' v' -> u = u' /\ v = v') /\
  (forall k, k < su * sv -> exists u v, u < su /\ v < sv /\ idx2 sv u v = k) /\
  tab2 su sv (idx2 sv) = seq 0 (su * sv).
Proof.
  intros su sv. split; [|split; [|split]].
  - intros; apply idx2_lt; assumption.
  - intros u v u' v'. apply idx2_inj.
  - apply idx2_surj.
  - apply idx2_enumerates.
Qed.
Print Assumptions C13_idx2_bijection.

(* [G] the volume index map (u,v,w) |-> v + size_v*(u + size_u*w) is a bijection onto [0, su*sv*sw); w is the
   slowest index, then u, then v *)
Theorem C13_idx3_bijection : forall su sv sw,
  (forall u v w, u < su -> v < sv -> w < sw -> idx3 su sv u v w < su * sv * sw) /\
  (forall u v w u' v' w', u < su -> u' < su -> v < sv -> v' < sv -> idx3 su sv u v w = idx3 su sv u' v' w' -> u = u' /\ v = v' /\ w = w') /\
  (forall k, k < su * sv * sw -> exists u v w, u < su /\ v < sv /\ w < sw /\ idx3 su sv u v w = k) /\
  tab3 sw su sv (fun w u v => idx3 su sv u v w) = seq 0 (su * sv * sw).
Proof.
  intros su sv sw. split; [|split; [|split]].
  - intros; apply idx3_lt; assumption.
  - intros u v w u' v' w'. apply idx3_inj.
  - apply idx3_surj.
  - apply idx3_enumerates.
Qed.
Print Assumptions C13_idx3_bijection.

(* [G] the subscript expressions written in control_points.py (managers) and evaluators.py are the same map *)
Theorem C13_subscripts_agree : forall su sv sw u v w iu du iv dv iw dw,
  find_index2 su sv u v = idx2 sv u v /\ find_index3 su sv sw u v w = idx3 su sv u v w /\
  ev_idx2 sv iu du iv dv = idx2 sv (iu + du) (iv + dv) /\
  ev_idx3 su sv iu du iv dv iw dw = idx3 su sv (iu + du) (iv + dv) (iw + dw).
Proof.
  intros. repeat split; [apply find_index2_is_idx2|apply find_index3_is_idx3].
Qed.
Print Assumptions C13_subscripts_agree.

(* [G] evaluators at the knots of a degree-1 surface / volume return the control point nth idx *)
Theorem C13_evaluator_reads_idx : forall (A : Type) (d : A) su sv sw (P : list A), 2 <= su -> 2 <= sv -> 2 <= sw ->
  eval_knots2 d su sv P = tab2 su sv (fun i j => at_ d P (idx2 sv i j)) /\
  eval_knots3 d su sv sw P = tab3 su sv sw (fun i j k => at_ d P (idx3 su sv i j k)).
Proof. intros. split; [apply eval_knots2_reads_idx2|apply eval_knots3_reads_idx3]; assumption. Qed.
Print Assumptions C13_evaluator_reads_idx.

(* [G] the 2-D grid view: ctrlpts2d[u][v] = ctrlpts[idx2 u v]; assigning a rectangular grid through the
   ctrlpts2d setter stores value[u][v] at idx2 u v, and the view of the result is the assigned grid *)
Theorem C13_grid_view : forall (A : Type) (d : A) su sv,
  (forall (P : list A) u v, u < su -> v < sv -> get2d d (view2d d su sv P) u v = at_ d P (idx2 sv u v)) /\
  (forall (V : list (list A)), 0 < su -> rect su sv V ->
     exists P, set2d d V = (P, su, sv) /\ length P = su * sv /\
               (forall u v, u < su -> v < sv -> at_ d P (idx2 sv u v) = get2d d V u v) /\ view2d d su sv P = V) /\
  (forall (P : list A), 0 < su -> length P = su * sv -> set2d d (view2d d su sv P) = (P, su, sv)).
Proof.
  intros A d su sv. split; [|split].
  - intros; apply view2d_get; assumption.
  - intros V H R. apply set2d_spec; assumption.
  - intros; apply set2d_view; assumption.
Qed.
Print Assumptions C13_grid_view.

(* [G] control point managers: inside the grid get_ctrlpt(u,v,w) reads nth idx; set_ctrlpt writes exactly the cell
   (u,v,w): a following get at (u',v',w') sees the new point iff (u',v',w') = (u,v,w) *)
Theorem C13_managers : forall (A : Type) (d : A) su sv sw,
  (forall (P : list A) u v, length P = su * sv -> u < su -> v < sv ->
     mgr_get P (find_index2 su sv u v) = Some (at_ d P (idx2 sv u v)) /\
     forall x, mgr_set P (find_index2 su sv u v) x = Ok (upd P (idx2 sv u v) x)) /\
  (forall (P P' : list A) u v u' v' x, v < sv -> v' < sv -> mgr_set P (find_index2 su sv u v) x = Ok P' ->
     mgr_get P' (find_index2 su sv u' v') =
       if andb (Nat.eqb u u') (Nat.eqb v v') then Some x else mgr_get P (find_index2 su sv u' v')) /\
  (forall (P : list A) u v w, length P = su * sv * sw -> u < su -> v < sv -> w < sw ->
     mgr_get P (find_index3 su sv sw u v w) = Some (at_ d P (idx3 su sv u v w))) /\
  (forall (P P' : list A) u v w u' v' w' x, u < su -> u' < su -> v < sv -> v' < sv ->
     mgr_set P (find_index3 su sv sw u v w) x = Ok P' ->
     mgr_get P' (find_index3 su sv sw u' v' w') =
       if andb (Nat.eqb u u') (andb (Nat.eqb v v') (Nat.eqb w w')) then Some x else mgr_get P (find_index3 su sv sw u' v' w')).
Proof.
  intros A d su sv sw. split; [|split; [|split]].
  - intros P u v HL Hu Hv. split; [apply (mgr2_get_ok d su sv); assumption|intros x; apply (mgr2_set_ok su sv); assumption].
  - intros P P' u v u' v' x. apply (mgr2_set_get d).
  - intros; apply (mgr3_get_ok d su sv sw); assumption.
  - intros P P' u v w u' v' w' x. apply (mgr3_set_get d).
Qed.
Print Assumptions C13_managers.

(* [G] row/column flips: flip_ctrlpts_u turns the u-fastest order into the v-fastest one, flip_ctrlpts does the
   opposite, they are inverse to each other in both orders, flip_ctrlpts2d swaps the two subscripts *)
Theorem C13_flips : forall (A : Type) (d : A) su sv (P : list A),
  (forall u v, u < su -> v < sv ->
     at_ d (flip_ctrlpts_u d P su sv) (idx2 sv u v) = at_ d P (u + su * v) /\
     at_ d (flip_ctrlpts d P su sv) (u + su * v) = at_ d P (idx2 sv u v)) /\
  (length P = su * sv -> flip_ctrlpts d (flip_ctrlpts_u d P su sv) su sv = P /\
                         flip_ctrlpts_u d (flip_ctrlpts d P su sv) su sv = P /\
                         flip_ctrlpts_res d P su sv = Ok (flip_ctrlpts d P su sv) /\
                         flip_ctrlpts_u_res d P su sv = Ok (flip_ctrlpts_u d P su sv)) /\
  (forall (V : list (list A)) u v, 0 < su -> 0 < sv -> u < su -> v < sv ->
     get2d d (flip_ctrlpts2d d V su sv) v u = get2d d V u v).
Proof.
  intros A d su sv P. split; [|split].
  - intros u v Hu Hv. split; [apply flip_ctrlpts_u_nth|apply flip_ctrlpts_nth]; assumption.
  - intros HL. split; [apply flip_flip_u; exact HL|]. split; [apply flip_u_flip; exact HL|]. apply flip_ctrlpts_res_ok. exact HL.
  - intros; apply flip_ctrlpts2d_get; assumption.
Qed.
Print Assumptions C13_flips.

(* [G] transposing swaps the roles of u and v: degrees, knot vectors and sizes are exchanged and the transposed
   net holds at (v,u) what the original holds at (u,v); hence S^T(u,v) = S(v,u) for the tensor-product definition
   (which only reads the net through idx2, C01).  Transposing twice is the identity.  operations.flip reverses both
   directions of the grid. *)
Theorem C13_transpose : forall (A Kn : Type) (d : A) (s : surf A Kn), wf_surf s ->
  (let t := transpose d s in
   s_pu t = s_pv s /\ s_pv t = s_pu s /\ s_Uu t = s_Uv s /\ s_Uv t = s_Uu s /\ s_su t = s_sv s /\ s_sv t = s_su s /\
   length (s_P t) = s_su s * s_sv s /\
   forall u v, u < s_su s -> v < s_sv s -> at_ d (s_P t) (idx2 (s_sv t) v u) = at_ d (s_P s) (idx2 (s_sv s) u v)) /\
  transpose d (transpose d s) = s /\
  (forall u v, u < s_su s -> v < s_sv s ->
     at_ d (s_P (flip s)) (idx2 (s_sv s) u v) = at_ d (s_P s) (idx2 (s_sv s) (s_su s - 1 - u) (s_sv s - 1 - v))) /\
  flip (flip s) = s.
Proof.
  intros A Kn d s W. split; [|split; [|split]].
  - apply transpose_spec. destruct W as (_ & H & _). exact H.
  - apply transpose_involutive. exact W.
  - apply flip_spec. exact W.
  - apply flip_involutive.
Qed.
Print Assumptions C13_transpose.

(* [G] transposition on evaluated points: for ANY coefficient families a_i (u direction) and b_j (v direction) - in particular
   the basis function values N_{i,pu}(u) and N_{j,pv}(v), whose degrees and knot vectors C13_transpose shows to be exchanged -
   the tensor-product sum  sum_i sum_j a_i b_j P(i,j)  over the original net equals the sum over the transposed net with the two
   families exchanged, coordinate by coordinate (coord : A -> R):  S^T(v,u) = S(u,v).  (real-number axioms only) *)
Theorem C13_transpose_evaluates_swapped : forall (A Kn : Type) (d : A) (coord : A -> R) (s : surf A Kn) (a b : nat -> R),
  0 < s_sv s ->
  let t := transpose d s in
  tp_eval d coord (s_su t) (s_sv t) b a (s_P t) = tp_eval d coord (s_su s) (s_sv s) a b (s_P s).
Proof. intros A Kn d coord s a b H. apply transpose_evaluates_swapped. exact H. Qed.
Print Assumptions C13_transpose_evaluates_swapped.

(* [G] curve and surface extraction address the same point for the same (u,v,w) *)
Theorem C13_extract_addresses : forall (A Kn : Type) (d : A),
  (forall (s : surf A Kn) u v, u < s_su s -> v < s_sv s ->
     let cu := nth v (fst (extract_curves d s)) (mkCrv 0 [] []) in
     let cv := nth u (snd (extract_curves d s)) (mkCrv 0 [] []) in
     (c_p cu = s_pu s /\ c_U cu = s_Uu s /\ length (c_P cu) = s_su s /\ at_ d (c_P cu) u = at_ d (s_P s) (idx2 (s_sv s) u v)) /\
     (c_p cv = s_pv s /\ c_U cv = s_Uv s /\ length (c_P cv) = s_sv s /\ at_ d (c_P cv) v = at_ d (s_P s) (idx2 (s_sv s) u v))) /\
  (forall (b : vol A Kn) u v w, 0 < v_su b -> 0 < v_sv b -> u < v_su b -> v < v_sv b -> w < v_sw b ->
     let suv := nth w (fst (fst (extract_surfaces d b))) (mkSurf 0 0 [] [] 0 0 []) in
     let suw := nth v (snd (fst (extract_surfaces d b))) (mkSurf 0 0 [] [] 0 0 []) in
     let svw := nth u (snd (extract_surfaces d b)) (mkSurf 0 0 [] [] 0 0 []) in
     let p := at_ d (v_P b) (idx3 (v_su b) (v_sv b) u v w) in
     at_ d (s_P suv) (idx2 (s_sv suv) u v) = p /\ at_ d (s_P suw) (idx2 (s_sv suw) u w) = p /\ at_ d (s_P svw) (idx2 (s_sv svw) v w) = p /\
     (s_pu suv, s_pv suv, s_Uu suv, s_Uv suv, s_su suv, s_sv suv) = (v_pu b, v_pv b, v_Uu b, v_Uv b, v_su b, v_sv b) /\
     (s_pu suw, s_pv suw, s_Uu suw, s_Uv suw, s_su suw, s_sv suw) = (v_pu b, v_pw b, v_Uu b, v_Uw b, v_su b, v_sw b) /\
     (s_pu svw, s_pv svw, s_Uu svw, s_Uv svw, s_su svw, s_sv svw) = (v_pv b, v_pw b, v_Uv b, v_Uw b, v_sv b, v_sw b)).
Proof.
  intros A Kn d. split.
  - intros s u v Hu Hv. split; [apply extract_curves_u|apply extract_curves_v]; assumption.
  - intros b u v w H0 H1 Hu Hv Hw.
    destruct (extract_surfaces_uv d b u v w H0 H1 Hu Hv Hw) as [E1 E2].
    destruct (extract_surfaces_uw d b u v w H0 H1 Hu Hv Hw) as [E3 E4].
    destruct (extract_surfaces_vw d b u v w H0 H1 Hu Hv Hw) as [E5 E6].
    cbv zeta. repeat split; assumption.
Qed.
Print Assumptions C13_extract_addresses.

(* [G] extracting iso-curves / iso-surfaces and reconstructing along the matching direction returns the original
   shape (all five extraction/construction direction pairs).  valid_* = what the setters of a geomdl shape enforce:
   positive degrees, size >= degree+1, complete net, knot vectors accepted by knotvector.check (parameter kv_ok). *)
Theorem C13_extract_then_construct : forall (A Kn : Type) (d : A) (kv_ok : nat -> list Kn -> nat -> bool),
  (forall s : surf A Kn, valid_surf kv_ok s ->
     construct_surface d kv_ok DU (s_pu s) (s_Uu s) (snd (extract_curves d s)) = Ok s /\
     construct_surface d kv_ok DV (s_pv s) (s_Uv s) (fst (extract_curves d s)) = Ok s) /\
  (forall b : vol A Kn, valid_vol kv_ok b ->
     construct_volume d kv_ok DW (v_pw b) (v_Uw b) (fst (fst (extract_surfaces d b))) = Ok b /\
     construct_volume d kv_ok DV (v_pv b) (v_Uv b) (snd (fst (extract_surfaces d b))) = Ok b /\
     construct_volume d kv_ok DU (v_pu b) (v_Uu b) (snd (extract_surfaces d b)) = Ok b).
Proof.
  intros A Kn d kv_ok. split.
  - intros s V. split; [apply extract_construct_surface_u|apply extract_construct_surface_v]; exact V.
  - intros b V. split; [apply extract_construct_volume_w|split; [apply extract_construct_volume_v|apply extract_construct_volume_u]]; exact V.
Qed.
Print Assumptions C13_extract_then_construct.

(* [G] sweeping a curve / surface along a vector (tr = translation of one control point): whenever sweep_vector
   returns a shape, its two opposite boundary sections are the input and its translate, and the input's degrees
   and knot vectors are kept in the swept directions *)
Theorem C13_sweep_boundaries : forall (A Kn : Type) (d : A) (kv_ok : nat -> list Kn -> nat -> bool) (tr : A -> A) (kv2 : list Kn),
  (forall (c : curve A Kn) s, sweep_curve d kv_ok tr kv2 c = Ok s ->
     s_su s = 2 /\ s_sv s = length (c_P c) /\ s_pv s = c_p c /\ s_Uv s = c_U c /\ s_pu s = 1 /\ s_Uu s = kv2 /\
     map (@c_P A Kn) (snd (extract_curves d s)) = [c_P c; map tr (c_P c)] /\
     (forall v, v < length (c_P c) -> at_ d (s_P s) (idx2 (s_sv s) 0 v) = at_ d (c_P c) v /\
                                      at_ d (s_P s) (idx2 (s_sv s) 1 v) = tr (at_ d (c_P c) v))) /\
  (forall (s : surf A Kn) b, length (s_P s) = s_su s * s_sv s -> sweep_surface d kv_ok tr kv2 s = Ok b ->
     (v_su b, v_sv b, v_sw b) = (s_su s, s_sv s, 2) /\ (v_pu b, v_pv b, v_pw b) = (s_pu s, s_pv s, 1) /\
     (v_Uu b, v_Uv b, v_Uw b) = (s_Uu s, s_Uv s, kv2) /\
     (forall u v, u < s_su s -> v < s_sv s ->
        at_ d (v_P b) (idx3 (v_su b) (v_sv b) u v 0) = at_ d (s_P s) (idx2 (s_sv s) u v) /\
        at_ d (v_P b) (idx3 (v_su b) (v_sv b) u v 1) = tr (at_ d (s_P s) (idx2 (s_sv s) u v)))).
Proof.
  intros A Kn d kv_ok tr kv2. split.
  - intros c s. apply sweep_curve_boundaries.
  - intros s b. apply sweep_surface_boundaries.
Qed.
Print Assumptions C13_sweep_boundaries.

(* ------------------------------------------------------------------ non-vacuity: concrete nets with pairwise
   different sizes satisfy the hypotheses and the models return values (not errors) *)
Definition ex_kvok (p : nat) (U : list nat) (n : nat) : bool := Nat.eqb (length U) (p + n + 1).
Definition ex_surf : surf nat nat := mkSurf 1 2 [0;0;1;2;2] [0;0;0;1;2;2;2] 3 4 (seq 1 12).
Definition ex_vol : vol nat nat := mkVol 1 1 2 [0;0;1;1] [0;0;1;2;2] [0;0;0;1;2;2;2] 2 3 4 (seq 1 24).

Example C13_hypotheses_satisfiable :
  valid_surf ex_kvok ex_surf /\ wf_surf ex_surf /\ valid_vol ex_kvok ex_vol /\
  transpose 0 ex_surf = mkSurf 2 1 [0;0;0;1;2;2;2] [0;0;1;2;2] 4 3 [1;5;9;2;6;10;3;7;11;4;8;12] /\
  construct_volume 0 ex_kvok DU 1 [0;0;1;1] (snd (extract_surfaces 0 ex_vol)) = Ok ex_vol /\
  construct_volume 0 ex_kvok DV 1 [0;0;1;2;2] (snd (fst (extract_surfaces 0 ex_vol))) = Ok ex_vol /\
  construct_surface 0 ex_kvok DV 2 [0;0;0;1;2;2;2] (fst (extract_curves 0 ex_surf)) = Ok ex_surf /\
  (exists s, sweep_curve 0 ex_kvok (fun x => x + 100) [0;0;1;1] (mkCrv 2 [0;0;0;1;1;1] [1;2;3]) = Ok s /\ s_P s = [1;2;3;101;102;103]) /\
  (exists b, sweep_surface 0 ex_kvok (fun x => x + 100) [0;0;1;1] ex_surf = Ok b /\ v_sw b = 2) /\
  rect 2 3 [[1;2;3];[4;5;6]] /\ set2d 0 [[1;2;3];[4;5;6]] = ([1;2;3;4;5;6], 2, 3) /\
  mgr_set (repeat 0 6) (find_index2 2 3 1 2) 7 = Ok [0;0;0;0;0;7].
Proof.
  unfold valid_surf, wf_surf, valid_vol, rect. cbn [ex_surf ex_vol s_pu s_pv s_su s_sv s_P s_Uu s_Uv v_pu v_pv v_pw v_su v_sv v_sw v_P v_Uu v_Uv v_Uw].
  repeat split; try (vm_compute; reflexivity); try (cbn; lia); try discriminate.
  - eexists. split; vm_compute; reflexivity.
  - eexists. split; vm_compute; reflexivity.
  - repeat constructor.
Qed.

(* ====================== TRANSLATOR TIE (Proofs/GenTie*.v) ======================
   coq/Gen/*.v is the Gallina rendering of the Python source produced by harness/pytrans.py; every run of ./check regenerates it
   from /repo and compares it function by function with the committed text (evidence: translator_tie).  The theorems below say
   that the hand-written model (the subject of the theorems above) computes, for ALL inputs satisfying the stated
   well-formedness, exactly what the translated source computes.  This block stays LAST in the file: its imports shadow
   model names. *)
From Coq Require Import List QArith Reals Qreals Lia Lra Arith Bool ZArith.
From NV Require Import Scalar.Ops Model.Common Model.Basis Model.Knots Model.KnotIns Model.KnotRem Model.LinAlg Model.Degree
  Gen.Prelude Gen.LinalgInternal Gen.Linalg Gen.Knotvector Gen.Helpers
  Proofs.GenTieSums Proofs.GenTieLinAlg Proofs.GenTieSubst Proofs.GenTieLU Proofs.GenTieLUSolve Proofs.GenTieKnotRem Proofs.GenTieDegree
  Proofs.GenTieLib Proofs.GenTieKnots Proofs.GenTieSpan Proofs.GenTieBasis Proofs.GenTieBasisOne
  Proofs.GenTieDersOne Proofs.GenTieDersLib Proofs.GenTieDers Proofs.GenTieKnotIns.
Local Open Scope nat_scope.
From NV Require Import Gen.PreludeExt Gen.LinalgMat Proofs.GenTieMat Proofs.GenTieMatSolve Proofs.GenTieBinom.
From NV Require Import Gen.PreludeExt Gen.HelpersB Proofs.GenTieKnotRemove.
From NV Require Import Gen.HelpersB Proofs.GenTieElev.
From NV Require Import Model.Geom2D Model.Voxel Gen.PreludeExt Gen.LinalgGeom Gen.Voxelize Proofs.GenTieGeom Proofs.GenTieVoxel
  Proofs.GenTieHull.
From NV Require Import Model.Hull Gen.Utilities Proofs.GenTieBBox.
From NV Require Import Model.Fit Gen.Fitting Proofs.GenTieFit.
From NV Require Import Model.Derivs Proofs.GenTieDerivCpts.
From NV Require Import Proofs.GenTieArr4 Proofs.GenTieDerivSurf.
From NV Require Import Model.KnotRefine Proofs.GenTieRefine.
From NV Require Import Model.Eval Gen.Evaluators Proofs.GenTieEvalLib Proofs.GenTieEvalCurve Proofs.GenTieEvalSurf Proofs.GenTieEvalVol.
From NV Require Import Model.Derivs Gen.HelpersC Proofs.GenTieBinom Proofs.GenTieBasisAll Proofs.GenTieEvalDerivCurve Proofs.GenTieEvalDerivCurve2.
From NV Require Import Proofs.GenTieEvalDerivSurf Proofs.GenTieEvalDerivSurfRat Proofs.GenTieEvalDerivSurf2.
From NV Require Import Model.Weights Gen.Compatibility Proofs.GenTieCompat.

From NV Require Import Model.Layout Gen.Compatibility Proofs.GenTieFlip.

(* [G] compatibility.flip_ctrlpts_u: ALL inputs (IndexError <-> Crash, exactly when len(ctrlpts) < size_u * size_v) *)
Theorem C13_gen_flip_ctrlpts_u_R : forall (P : list (list R)) (su sv : nat),
  Compatibility.flip_ctrlpts_u Rops P (Z.of_nat su) (Z.of_nat sv) =
  res_to_gres (fun x => x) ValueError IndexError (flip_ctrlpts_u_res [] P su sv).
Proof. exact flip_ctrlpts_u_tie_R. Qed.
Print Assumptions C13_gen_flip_ctrlpts_u_R.
Theorem C13_gen_flip_ctrlpts_u_Q : forall (P : list (list Q)) (su sv : nat),
  Compatibility.flip_ctrlpts_u Qops P (Z.of_nat su) (Z.of_nat sv) =
  res_to_gres (fun x => x) ValueError IndexError (flip_ctrlpts_u_res [] P su sv).
Proof. exact flip_ctrlpts_u_tie_Q. Qed.
Print Assumptions C13_gen_flip_ctrlpts_u_Q.

(* [G] compatibility.flip_ctrlpts: ALL inputs *)
Theorem C13_gen_flip_ctrlpts_R : forall (P : list (list R)) (su sv : nat),
  Compatibility.flip_ctrlpts Rops P (Z.of_nat su) (Z.of_nat sv) =
  res_to_gres (fun x => x) ValueError IndexError (flip_ctrlpts_res [] P su sv).
Proof. exact flip_ctrlpts_tie_R. Qed.
Print Assumptions C13_gen_flip_ctrlpts_R.
Theorem C13_gen_flip_ctrlpts_Q : forall (P : list (list Q)) (su sv : nat),
  Compatibility.flip_ctrlpts Qops P (Z.of_nat su) (Z.of_nat sv) =
  res_to_gres (fun x => x) ValueError IndexError (flip_ctrlpts_res [] P su sv).
Proof. exact flip_ctrlpts_tie_Q. Qed.
Print Assumptions C13_gen_flip_ctrlpts_Q.

(* [G] compatibility.flip_ctrlpts2d; wf: a first row exists and the table has size_u rows of >= size_v points (sizes as given, or as detected when one is 0) *)
Theorem C13_gen_flip_ctrlpts2d_R : forall (V : list (list (list R))) (su sv : nat),
  V <> [] -> flip2d_su V su sv <= length V -> (forall j, j < flip2d_su V su sv -> flip2d_sv V su sv <= length (nth j V [])) ->
  Compatibility.flip_ctrlpts2d Rops V (Z.of_nat su) (Z.of_nat sv) = GOk (Layout.flip_ctrlpts2d [] V su sv).
Proof. exact flip_ctrlpts2d_tie_R. Qed.
Print Assumptions C13_gen_flip_ctrlpts2d_R.
Theorem C13_gen_flip_ctrlpts2d_Q : forall (V : list (list (list Q))) (su sv : nat),
  V <> [] -> flip2d_su V su sv <= length V -> (forall j, j < flip2d_su V su sv -> flip2d_sv V su sv <= length (nth j V [])) ->
  Compatibility.flip_ctrlpts2d Qops V (Z.of_nat su) (Z.of_nat sv) = GOk (Layout.flip_ctrlpts2d [] V su sv).
Proof. exact flip_ctrlpts2d_tie_Q. Qed.
Print Assumptions C13_gen_flip_ctrlpts2d_Q.
Example C13_gen_nonvacuous :
  Compatibility.flip_ctrlpts_u Qops [[0]; [1]; [2]; [3]; [4]; [5]]%Q 2 3 = GOk [[0]; [2]; [4]; [1]; [3]; [5]]%Q
  /\ flip_ctrlpts_u_res [] [[0]; [1]; [2]; [3]; [4]; [5]]%Q 2 3 = Ok [[0]; [2]; [4]; [1]; [3]; [5]]%Q
  /\ Compatibility.flip_ctrlpts_u Qops [[0]; [1]; [2]; [3]; [4]; [5]]%Q 2 4 = GErr IndexError.
Proof. split; [|split]; vm_compute; reflexivity. Qed.

