(* C12 - no stale derived state after any sequence of edits; deep copies are independent.
   Statements only; proofs in Proofs/ObjR.v.  Model: Model/Obj.v = the object state machines of abstract.py /
   BSpline.py / NURBS.py / multi.py / tessellate.py / operations.py as repaired by fixes/C12-*.diff.  The view functions
   (sampled points f_ev, bounding box f_bbox, tessellation f_tess) and the scalar type are arbitrary in every theorem:
   the cache discipline does not depend on what the views compute. *)
From Coq Require Import List QArith Lia Arith Bool.
From NV Require Import Scalar.Ops Model.Common Model.Knots Model.Weights Model.Equal Model.Obj Model.ObjRun Proofs.ObjR.
From NV Require Import Proofs.ObjTessR.
Import ListNotations.
Local Open Scope nat_scope.

Section Statements.
Context {T : Type} (K : ops T).
Variable f_ev : @defn T -> list (list T).
Variable f_bbox : list (list T) -> list T * list T.
Variable f_tess : nat -> @defn T -> list (list T) -> list (list T) * list (list nat).
Notation oinv := (oinv K f_ev f_bbox f_tess).
Notation ginv := (ginv K f_ev f_bbox f_tess).
Notation Cinv := (Cinv K f_ev).
Notation gstep := (gstep K f_ev f_bbox f_tess).
Notation wstep := (wstep K f_ev f_bbox f_tess).
Notation wrun := (wrun K f_ev f_bbox f_tess).
Definition w0 : @world T := mkWorld [] [] 0.

(* [G] Inv_init: a freshly built object (any definition) and the empty world satisfy the invariant
   "every cache is empty or equals its view of the current definition" (Proofs/ObjR.oinv) *)
Theorem C12_Inv_init : (forall d ids, oinv (fresh d ids)) /\ ginv w0 /\ Cinv w0 /\ ids_ok w0.
Proof. split; [intros; apply oinv_fresh|split; [apply ginv_init|split; [apply Cinv_init|apply ids_ok_init]]]. Qed.

(* [G] Inv_step for one geometry: EVERY public mutator / reader of the model (degree, knot vector, the control point
   setters in all three views, delta / sample size, knot insertion / removal / refinement, reverse, transpose, flip,
   in-place translate / rotate / scale, tessellate, every getter) preserves the invariant *)
Theorem C12_Inv_step : forall (o : @obj T) (g : gop) (next : nat), oinv o -> oinv (fst (gstep o g next)).
Proof. intros o g next. exact (oinv_gstep K f_ev f_bbox f_tess g next o). Qed.

(* [G] Inv_step for the world: geometries stay consistent under every operation including deep copies, container
   add / delta / sample size / in-place transforms / reads (which write the container's density into the elements) *)
Theorem C12_Inv_step_world : forall (w : @world T) (o : wop), ginv w -> ginv (fst (wstep w o)).
Proof. exact (ginv_wstep K f_ev f_bbox f_tess). Qed.

(* [G] Inv_reachable: after ANY list of operations (fold over the list) starting from nothing, every geometry of the
   world satisfies the invariant *)
Theorem C12_Inv_reachable : forall ops : list wop, ginv (wrun w0 ops).
Proof. intro ops. apply ginv_wrun. apply ginv_init. Qed.

(* [G] read_equals_fresh: after any history, every getter of every geometry returns what a freshly built object with
   the same definition returns (unweighted points, weights, 2-D grid, bounding box, sampled points; the tessellation
   after tessellate(vertex_spacing=k) for every k >= 1, and a plain vertices/faces read returns the tessellation of
   the current definition for the spacing requested last) *)
Theorem C12_read_equals_fresh : forall (ops : list wop) (i : nat) (ids : list nat),
  let o := geom (wrun w0 ops) i in let f := fresh (o_def o) ids in
  snd (read_cpts K o) = snd (read_cpts K f) /\ snd (read_wts K o) = snd (read_wts K f) /\ o_cp2d o = o_cp2d f /\
  snd (read_bbox K f_bbox o) = snd (read_bbox K f_bbox f) /\ snd (read_eval f_ev o) = snd (read_eval f_ev f) /\
  (forall k, 1 <= k -> snd (read_tess f_ev f_tess (tessellate f_ev f_tess o k)) = snd (read_tess f_ev f_tess (tessellate f_ev f_tess f k))) /\
  (exists k, 1 <= k /\ snd (read_tess f_ev f_tess o) = snd (read_tess f_ev f_tess (tessellate f_ev f_tess f k))).
Proof.
  intros ops i ids o f. apply (read_equals_fresh K f_ev f_bbox f_tess). apply ginv_geom. apply ginv_wrun. apply ginv_init.
Qed.

(* [G, with side condition] container caches: the sampled-points cache of every container is empty or the concatenation of
   its elements' sampled points at the container's density, after any list of operations each of which satisfies
   Proofs/ObjR.safe when executed: it does not modify a geometry held by ANOTHER container whose cache is filled (this
   excludes exactly the known finding below).  Container operations on the container itself, including the repaired
   delta_u / sample_size_u setters and in-place transforms, need no side condition. *)
Theorem C12_container_Inv_reachable : forall ops : list wop, all_safe K f_ev f_bbox f_tess w0 ops -> Cinv (wrun w0 ops).
Proof. intros ops H. apply (Cinv_wrun K f_ev f_bbox f_tess); [apply ginv_init|apply Cinv_init|exact H]. Qed.

Theorem C12_container_Inv_step : forall (w : @world T) (o : wop), ginv w -> Cinv w -> safe w o -> Cinv (fst (wstep w o)).
Proof. exact (Cinv_wstep K f_ev f_bbox f_tess). Qed.

Theorem C12_container_read_equals_fresh : forall (w : @world T) (j : nat), ginv w -> Cinv w ->
  snd (c_read_eval K f_ev w j) = cderive K f_ev w (contr w j).
Proof. exact (c_read_equals_fresh K f_ev f_bbox f_tess). Qed.

(* [G] deepcopy_independent: a deep copy has the same definition and fresh provenance ids; no list of operations that
   does not target the original (resp. the copy) changes the original (resp. the copy) -- all fields, hence all views *)
Theorem C12_deepcopy_independent : forall (w : @world T) (i : nat), i < length (w_geoms w) ->
  let w1 := fst (wstep w (Copy i)) in let n := length (w_geoms w) in
  o_def (geom w1 n) = o_def (geom w i) /\ geom w1 i = geom w i /\
  (forall x, In x (o_ids (geom w1 n)) -> w_next w <= x) /\
  (forall ops, (forall o, In o ops -> touches o i = false) -> geom (wrun w1 ops) i = geom w i) /\
  (forall ops, (forall o, In o ops -> touches o n = false) -> geom (wrun w1 ops) n = geom w1 n).
Proof. exact (deepcopy_independent K f_ev f_bbox f_tess). Qed.

(* [G] provenance ids: after any history all ids are below the allocation counter and no two geometries (in particular a
   deep copy and its source, also deep copies made by copying a container) share the id of a mutable definition slot *)
Theorem C12_ids_disjoint_reachable : forall ops : list wop, ids_ok (wrun w0 ops).
Proof. intro ops. apply (ids_ok_wrun K f_ev f_bbox f_tess). apply ids_ok_init. Qed.
End Statements.

Print Assumptions C12_Inv_init.
Print Assumptions C12_Inv_step.
Print Assumptions C12_Inv_step_world.
Print Assumptions C12_Inv_reachable.
Print Assumptions C12_read_equals_fresh.
Print Assumptions C12_container_Inv_reachable.
Print Assumptions C12_container_Inv_step.
Print Assumptions C12_container_read_equals_fresh.
Print Assumptions C12_deepcopy_independent.
Print Assumptions C12_ids_disjoint_reachable.

(* ---- refutations on the executable instance (exact rationals, the evaluators of Model/ObjRun.v) ---- *)
Definition tol8 : Q := (1 # 10000000)%Q.
Definition evQ := ev_of Qops tol8.
Definition bbQ := bbox_of Qops.
Definition tsQ := tess_of Qops.
Definition crv : @defn Q := mkDef 1 true [2]%nat [[0;0;0;1;1;1]%Q] [[0;0;1];[2;4;2];[3;0;1]]%Q [3]%nat [1#2]%Q.

(* the pinned Curve.reverse (caches of the rational views survive) breaks the invariant: read ctrlpts, reverse *)
Theorem C12_pinned_reverse_refuted : exists o : @obj Q,
  oinv Qops evQ bbQ tsQ o /\ ~ oinv Qops evQ bbQ tsQ (reverse_pinned Qops o).
Proof.
  exists (fst (read_cpts Qops (fresh crv []))). split.
  - apply (read_cpts_spec Qops evQ bbQ tsQ). apply oinv_fresh.
  - intros [A _ _ _ _ _]. destruct A as [A|A]; vm_compute in A; discriminate.
Qed.
Print Assumptions C12_pinned_reverse_refuted.

(* known finding (not repaired, model faithful): a container does not notice an edit made directly to a geometry it
   holds: add, read the container's sampled points, edit the element -> the container cache is stale; the edit is exactly
   what the side condition [safe] excludes *)
Definition alias_history : list (@wop Q) :=
  [New crv; NewCont 1 (1#2)%Q; C 0 (CAdd 0); C 0 CReadEval].
Definition alias_edit : @wop Q := G 0 (SetCtrlpts [[5;5;1];[2;4;2];[3;0;1]]%Q [3]%nat).
Theorem C12_container_alias_refuted :
  let w := wrun Qops evQ bbQ tsQ (mkWorld [] [] 0) alias_history in
  ginv Qops evQ bbQ tsQ w /\ Cinv Qops evQ w /\ ~ safe w alias_edit /\
  ~ Cinv Qops evQ (fst (wstep Qops evQ bbQ tsQ w alias_edit)).
Proof.
  intro w. assert (Hg : ginv Qops evQ bbQ tsQ w) by (apply ginv_wrun; apply ginv_init).
  assert (HC : Cinv Qops evQ w).
  { apply (Cinv_wrun Qops evQ bbQ tsQ); [apply ginv_init|apply Cinv_init|].
    unfold alias_history. cbn [all_safe].
    split; [|split; [|split; [|split; [|exact I]]]]; intros j' Hj H i Hi.
    - vm_compute in Hi. destruct Hi.
    - vm_compute in Hi. destruct Hi.
    - vm_compute in Hi. destruct Hi.
    - destruct j' as [|j']; [exfalso; apply Hj; reflexivity|]. exfalso. apply H. vm_compute. destruct j'; reflexivity. }
  split; [exact Hg|split; [exact HC|split]].
  - intro S. apply (S 0%nat I) with (i := 0%nat); [vm_compute; discriminate|vm_compute; auto|vm_compute; auto].
  - intros [_ X]. specialize (X 0%nat). destruct X as [X|X]; vm_compute in X; discriminate.
Qed.
Print Assumptions C12_container_alias_refuted.

(* ---- non-vacuity: a concrete history (read, edit, read ... with a deep copy) on the executable instance ---- *)
Definition demo : list (@wop Q) :=
  [New crv; G 0 ReadCpts; G 0 ReadEval; G 0 ReadBBox; G 0 Reverse; Copy 0; G 1 (SetWts [1;1;4]%Q); G 0 (Translate [1;1]%Q);
   G 1 (SetDelta [0]%nat (1#4)%Q); G 0 ReadEval].
Example C12_ex_history :
  let w := wrun Qops evQ bbQ tsQ (mkWorld [] [] 0) demo in
  (* the original: reversed and translated; reads agree with a fresh object *)
  snd (read_cpts Qops (geom w 0)) = [[4;1];[2;3];[1;1]]%Q /\
  snd (read_eval evQ (geom w 0)) = snd (read_eval evQ (fresh (o_def (geom w 0)) [])) /\
  snd (read_eval evQ (geom w 0)) = [[4;1];[1;1]]%Q /\
  (* the copy: other weights, other density, 4 sample points; the original kept its weights and density *)
  snd (read_wts Qops (geom w 1)) = [1;1;4]%Q /\ snd (read_wts Qops (geom w 0)) = [1;2;1]%Q /\
  length (snd (read_eval evQ (geom w 1))) = 4%nat /\
  (* provenance ids of the two objects are disjoint *)
  forallb (fun x => negb (existsb (Nat.eqb x) (o_ids (geom w 1)))) (o_ids (geom w 0)) = true.
Proof. vm_compute. repeat split; reflexivity. Qed.

(* the side condition is satisfiable by a history with container operations (all_safe holds) *)
Example C12_ex_container :
  let ops := [New crv; New crv; NewCont 1 (1#2)%Q; C 0 (CAdd 0); C 0 CReadEval; C 0 (CTranslate [1;0]%Q); C 0 CReadEval;
              C 0 (CAdd 1); C 0 (CSetSample 5); G 1 ReadEval; C 0 CReadEval] in
  let w := wrun Qops evQ bbQ tsQ (mkWorld [] [] 0) ops in
  length (c_eval (contr w 0)) = 8%nat /\ c_eval (contr w 0) = cderive Qops evQ w (contr w 0).
Proof. vm_compute. split; reflexivity. Qed.

(* ====================== round 2 (Proofs/ObjTessR.v): container vertices / faces aggregates ====================== *)

Local Open Scope nat_scope.

Section TessStatements.
Context {T : Type} (K : ops T).
Variable f_ev : @defn T -> list (list T).
Variable f_bbox : list (list T) -> list T * list T.
Variable f_tess : nat -> @defn T -> list (list T) -> list (list T) * list (list nat).
Notation ginv := (ginv K f_ev f_bbox f_tess).
Notation CTinv := (CTinv K f_ev f_tess).
Notation wstep := (wstep K f_ev f_bbox f_tess).
Notation wrun := (wrun K f_ev f_bbox f_tess).
Notation ctderive := (ctderive K f_ev f_tess).
Notation all_safe2 := (all_safe2 K f_ev f_bbox f_tess).

(* [G, with side condition] SurfaceContainer vertices / faces: CTinv = the sampled-points invariant Cinv AND for every container
   the vertices/faces cache is empty or equals ctderive = the aggregate (agg: vertices concatenated, faces shifted by the
   vertex offset) of its elements' spacing-1 tessellations at the container's density.  safe2 = ObjR.safe and the same for
   the tessellation caches: the operation does not modify a geometry held by ANOTHER container whose cache is filled. *)
Theorem C12_container_tess_Inv_step : forall (w : @world T) (o : wop), ginv w -> CTinv w -> safe2 w o -> CTinv (fst (wstep w o)).
Proof. exact (CTinv_wstep K f_ev f_bbox f_tess). Qed.

Theorem C12_container_tess_Inv_reachable : forall ops : list wop,
  all_safe2 (mkWorld [] [] 0) ops -> CTinv (wrun (mkWorld [] [] 0) ops).
Proof. intros ops H. apply (CTinv_wrun K f_ev f_bbox f_tess); [apply ginv_init|apply CTinv_init|exact H]. Qed.

(* [G] reading vertices/faces of a container in a state satisfying the invariants returns the aggregate *)
Theorem C12_container_tess_read_equals_fresh : forall (w : @world T) (j : nat), ginv w -> CTinv w ->
  snd (c_read_tess K f_ev f_tess w j) = ctderive w (contr w j).
Proof. exact (c_read_tess_equals_fresh K f_ev f_bbox f_tess). Qed.

(* [G] after ANY safe history: a container's vertices/faces read = vertices of freshly built elements (same definition at the
   container's density, read through .vertices/.faces) concatenated, faces of element n shifted by the number of vertices
   of the elements before it (faces_from) *)
Theorem C12_container_tess_read_reachable : forall (ops : list wop) (j : nat) (ids : list nat),
  all_safe2 (mkWorld [] [] 0) ops ->
  let w := wrun (mkWorld [] [] 0) ops in
  let ms := map (fun i => snd (read_tess f_ev f_tess (fresh (dld K (o_def (geom w i)) 0 (c_delta (contr w j))) ids))) (c_elems (contr w j)) in
  snd (c_read_tess K f_ev f_tess w j) = (concat (map fst ms), faces_from 0 ms).
Proof. exact (container_tess_read_reachable K f_ev f_bbox f_tess). Qed.

(* [G] the aggregate in closed form *)
Theorem C12_container_aggregate_closed_form : forall ms : list (@tessres T),
  agg ms = (concat (map fst ms), faces_from 0 ms).
Proof. exact agg_spec. Qed.
End TessStatements.
Print Assumptions C12_container_tess_Inv_step.
Print Assumptions C12_container_tess_Inv_reachable.
Print Assumptions C12_container_tess_read_equals_fresh.
Print Assumptions C12_container_tess_read_reachable.
Print Assumptions C12_container_aggregate_closed_form.

(* ---- executable instance: two bilinear patches in a SurfaceContainer ---- *)
Definition srfA : @defn Q := mkDef 2 false [1; 1]%nat [[0;0;1;1]; [0;0;1;1]]%Q [[0;0;0]; [0;1;0]; [1;0;0]; [1;1;1]]%Q [2; 2]%nat [1#2; 1#2]%Q.
Definition srfB : @defn Q := mkDef 2 false [1; 1]%nat [[0;0;1;1]; [0;0;1;1]]%Q [[2;0;0]; [2;1;0]; [3;0;0]; [3;1;5]]%Q [2; 2]%nat [1#2; 1#2]%Q.
Definition tess_history : list (@wop Q) :=
  [New srfA; New srfB; NewCont 2 (1#2)%Q; C 0 (CAdd 0); C 0 (CAdd 1); C 0 CReadTess; G 0 ReadTess; C 0 CReadEval;
   C 0 (CSetSample 4); C 0 CReadTess].
(* the side condition holds along the history; the cache is the aggregate: 9 + 9 vertices, 8 + 8 faces, the second
   element's faces start at vertex 9 *)
Example C12_ex_container_tess :
  let w := wrun Qops evQ bbQ tsQ (mkWorld [] [] 0) tess_history in
  all_safe2 Qops evQ bbQ tsQ (mkWorld [] [] 0) tess_history /\
  c_tess (contr w 0) = Some (ctderive Qops evQ tsQ w (contr w 0)) /\
  length (fst (ctderive Qops evQ tsQ w (contr w 0))) = 18 /\ length (snd (ctderive Qops evQ tsQ w (contr w 0))) = 16 /\
  nth 8 (snd (ctderive Qops evQ tsQ w (contr w 0))) [] = [9; 12; 13].
Proof.
  intro w. split.
  - unfold tess_history. cbn [all_safe2].
    assert (Hnil : forall (w' : @world Q) o, wfoot w' o = [] -> safe2 w' o).
    { intros w' o E. split; intros j' _ _ i Hi; rewrite E in Hi; destruct Hi. }
    assert (Hone : forall (w' : @world Q) co, length (w_conts w') = 1 -> safe2 w' (C 0 co)).
    { intros w' co L. assert (D : forall j', j' <> 0 -> contr w' j' = dummy_cont).
      { intros [|j'] Hj; [congruence|]. unfold contr. apply nth_overflow. rewrite L. lia. }
      split; intros j' Hj H; exfalso; apply H; rewrite (D j' Hj); reflexivity. }
    repeat (split; [first [apply Hnil; reflexivity | apply Hone; reflexivity]|]). exact I.
  - vm_compute. repeat split; reflexivity.
Qed.

(* the known finding shows on the vertices/faces cache as well: an edit made directly to an element after the container was
   tessellated leaves the container's aggregate stale; it is exactly what safe2 excludes *)
Definition tess_alias_history : list (@wop Q) := [New srfA; NewCont 2 (1#2)%Q; C 0 (CAdd 0); C 0 CReadTess].
Definition tess_alias_edit : @wop Q := G 0 (SetCtrlpts [[0;0;7]; [0;1;0]; [1;0;0]; [1;1;1]]%Q [2; 2]%nat).
Theorem C12_container_tess_alias_refuted :
  let w := wrun Qops evQ bbQ tsQ (mkWorld [] [] 0) tess_alias_history in
  ginv Qops evQ bbQ tsQ w /\ CTinv Qops evQ tsQ w /\ ~ safe2 w tess_alias_edit /\
  ~ CTinv Qops evQ tsQ (fst (wstep Qops evQ bbQ tsQ w tess_alias_edit)).
Proof.
  intro w. assert (Hg : ginv Qops evQ bbQ tsQ w) by (apply ginv_wrun; apply ginv_init).
  assert (HC : CTinv Qops evQ tsQ w).
  { apply (CTinv_wrun Qops evQ bbQ tsQ); [apply ginv_init|apply CTinv_init|].
    unfold tess_alias_history. cbn [all_safe2].
    assert (Hnil : forall (w' : @world Q) o, wfoot w' o = [] -> safe2 w' o).
    { intros w' o E. split; intros j' _ _ i Hi; rewrite E in Hi; destruct Hi. }
    assert (Hone : forall (w' : @world Q) co, length (w_conts w') = 1 -> safe2 w' (C 0 co)).
    { intros w' co L. assert (D : forall j', j' <> 0 -> contr w' j' = dummy_cont).
      { intros [|j'] Hj; [congruence|]. unfold contr. apply nth_overflow. rewrite L. lia. }
      split; intros j' Hj H; exfalso; apply H; rewrite (D j' Hj); reflexivity. }
    repeat (split; [first [apply Hnil; reflexivity | apply Hone; reflexivity]|]). exact I. }
  split; [exact Hg|split; [exact HC|split]].
  - intros [_ S]. apply (S 0 I) with (i := 0); [vm_compute; discriminate|vm_compute; auto|vm_compute; auto].
  - intros [_ X]. specialize (X 0). destruct X as [X|X]; vm_compute in X; discriminate.
Qed.
Print Assumptions C12_container_tess_alias_refuted.
