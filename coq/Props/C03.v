(* C03 - basis functions and knot-span search satisfy their defining identities.
   This file only states the property theorems; proofs live under Proofs/ and Transfer/. *)
From Coq Require Import List QArith Reals Qreals Lia Lra Arith Bool.
From NV Require Import Scalar.Ops Model.Common Model.Basis Model.Knots Proofs.Boehm Proofs.BasisR Proofs.KnotsR Proofs.EvalR Proofs.BinSearchR Proofs.DersSum5 Proofs.DersSum6 Proofs.GenerateR Proofs.BasisPos Proofs.BasisOneR Proofs.DerivAnalytic Proofs.DerivLink Proofs.DersEq210 Proofs.DersNdu Proofs.DersGeneral Transfer.BasisT.
Import ListNotations.

(* [G] all degrees, all sorted knot vectors with any multiplicities, all parameters in a non-empty span *)
Theorem C03_partition_of_unity_R : forall (U : list R) (u : R) (span p : nat),
  sortedR U -> (knR U span <= u < knR U (span + 1))%R -> (p <= span)%nat -> (span + p < length U)%nat ->
  sumT Rops (basis_function Rops p U span u) = 1%R.
Proof. intros U u span p Hs Hu. exact (bf_partition_unity U u span Hs Hu p). Qed.
Print Assumptions C03_partition_of_unity_R.

Theorem C03_partition_of_unity_Q : forall p (U : list Q) span (u : Q),
  sortedQ U -> (kn Qops U span <= u)%Q -> (u < kn Qops U (span+1))%Q -> (p <= span)%nat -> (span + p < length U)%nat ->
  (sumT Qops (basis_function Qops p U span u) == 1)%Q.
Proof. exact bf_partition_unity_Q. Qed.
Print Assumptions C03_partition_of_unity_Q.

Theorem C03_basis_nonnegative_R : forall (U : list R) (u : R) (span p : nat),
  sortedR U -> (knR U span <= u < knR U (span + 1))%R -> (p <= span)%nat -> (span + p < length U)%nat ->
  Forall (fun x => (0 <= x)%R) (basis_function Rops p U span u).
Proof. intros U u span p Hs Hu. exact (bf_nonneg U u span Hs Hu p). Qed.
Print Assumptions C03_basis_nonnegative_R.

Theorem C03_basis_nonnegative_Q : forall p (U : list Q) span (u : Q),
  sortedQ U -> (kn Qops U span <= u)%Q -> (u < kn Qops U (span+1))%Q -> (p <= span)%nat -> (span + p < length U)%nat ->
  Forall (fun x => (0 <= x)%Q) (basis_function Qops p U span u).
Proof. exact bf_nonneg_Q. Qed.
Print Assumptions C03_basis_nonnegative_Q.

(* [G] the A2.2 scan equals the Cox-de Boor recursion N (0/0 = 0 through empty supports) *)
Theorem C03_basis_function_is_cox_de_boor : forall (U : list R) (u : R) (span p : nat),
  sortedR U -> (knR U span <= u < knR U (span + 1))%R -> (p <= span)%nat -> (span + p < length U)%nat -> (span + 1 < length U)%nat ->
  forall r, (r <= p)%nat -> nth r (basis_function Rops p U span u) 0%R = N (Ufun U) p (span - p + r) u.
Proof. intros U u span p Hs Hu. exact (bf_is_cox_de_boor_list U u span Hs Hu p). Qed.
Print Assumptions C03_basis_function_is_cox_de_boor.

(* [G] linear span search returns the knot interval containing u (the last one at the domain end) *)
Theorem C03_find_span_linear_spec : forall (U : list R) (u : R) (p n : nat),
  sortedR U -> (p < n)%nat -> (n < length U)%nat -> (knR U p <= u)%R ->
  let k := find_span_linear Rops p U n u in
  (p <= k < n)%nat /\ (knR U k <= u)%R /\ ((u < knR U (S k))%R \/ (k = n - 1)%nat /\ (knR U n <= u)%R).
Proof. intros U u p n Hs Hn HL. exact (find_span_linear_spec U u p n Hn HL). Qed.
Print Assumptions C03_find_span_linear_spec.

(* [G] knot vector validity check: true exactly for the right length and non-decreasing order *)
Theorem C03_check_spec : forall p n f (U : list R),
  check Rops p (f :: U) n = Ok true <-> (length (f :: U) = S (p + n) /\ nondecr f U).
Proof. exact check_spec. Qed.
Print Assumptions C03_check_spec.

Theorem C03_normalize_affine_monotone : forall f (U : list R),
  normalize Rops (f :: U) = Ok (map (fun k => (k - f) / (last (f :: U) f - f))%R (f :: U)) /\
  ((f < last (f :: U) f)%R -> forall a b, (a <= b)%R -> ((a - f) / (last (f :: U) f - f) <= (b - f) / (last (f :: U) f - f))%R).
Proof. intros f U. split; [apply normalize_affine|intros H a b; apply normalize_monotone; exact H]. Qed.
Print Assumptions C03_normalize_affine_monotone.

(* [G] binary search = linear search: for every sorted knot vector, every degree and every parameter u >= U_p (inside the
   domain, at its end, or beyond) the binary search terminates (within the model's fuel) and returns the span of the linear
   search, i.e. the unique non-empty half-open interval containing u (the last one at the end).  (The pinned code's 1e-5
   end-tolerance shortcut made this false near the end; repaired in /repo b25d1c5.) *)
Theorem C03_binsearch_eq_linear : forall (U : list R) (u tol : R) (p num : nat),
  sortedR U -> (p < num)%nat -> (num < length U)%nat -> (knR U p <= u)%R ->
  find_span_binsearch Rops tol p U num u = Some (find_span_linear Rops p U num u).
Proof. intros U u tol p num Hs. exact (binsearch_eq_linear U u Hs tol p num). Qed.
Print Assumptions C03_binsearch_eq_linear.

Theorem C03_span_unique : forall (U : list R) (u : R) k k', sortedR U -> (k + 1 < length U)%nat -> (k' + 1 < length U)%nat ->
  (knR U k <= u < knR U (k + 1))%R -> (knR U k' <= u < knR U (k' + 1))%R -> k = k'.
Proof. intros U u k k' Hs. exact (span_unique U u Hs k k'). Qed.
Print Assumptions C03_span_unique.

(* [B: degrees 1..6, every knot vector / multiplicity pattern / parameter] every derivative row k = 1..p of A2.3 sums to zero
   and row 0 sums to one.  Proved per degree on the symbolic knot window by field and lifted to arbitrary knot vectors by the
   window-locality theorem (Proofs/DersLocal.v).  Degree 7 of the property's range 1..7 is tied by the correspondence only. *)
Theorem C03_ders_rows_sum_to_zero_deg_le_6 : forall (U : list R) (span : nat) (u : R),
  sortedR U -> (knR U span <= u < knR U (span + 1))%R ->
  ((1 <= span)%nat -> (span + 1 < length U)%nat -> let D := basis_function_ders Rops 1 U span u 1 in sumT Rops (nth 1 D []) = 0%R) /\
  ((2 <= span)%nat -> (span + 2 < length U)%nat -> let D := basis_function_ders Rops 2 U span u 2 in
      sumT Rops (nth 1 D []) = 0%R /\ sumT Rops (nth 2 D []) = 0%R) /\
  ((3 <= span)%nat -> (span + 3 < length U)%nat -> let D := basis_function_ders Rops 3 U span u 3 in
      sumT Rops (nth 1 D []) = 0%R /\ sumT Rops (nth 2 D []) = 0%R /\ sumT Rops (nth 3 D []) = 0%R) /\
  ((4 <= span)%nat -> (span + 4 < length U)%nat -> let D := basis_function_ders Rops 4 U span u 4 in
      sumT Rops (nth 1 D []) = 0%R /\ sumT Rops (nth 2 D []) = 0%R /\ sumT Rops (nth 3 D []) = 0%R /\ sumT Rops (nth 4 D []) = 0%R) /\
  ((5 <= span)%nat -> (span + 5 < length U)%nat -> let D := basis_function_ders Rops 5 U span u 5 in
      sumT Rops (nth 1 D []) = 0%R /\ sumT Rops (nth 2 D []) = 0%R /\ sumT Rops (nth 3 D []) = 0%R /\ sumT Rops (nth 4 D []) = 0%R /\ sumT Rops (nth 5 D []) = 0%R) /\
  ((6 <= span)%nat -> (span + 6 < length U)%nat -> let D := basis_function_ders Rops 6 U span u 6 in
      sumT Rops (nth 1 D []) = 0%R /\ sumT Rops (nth 2 D []) = 0%R /\ sumT Rops (nth 3 D []) = 0%R /\ sumT Rops (nth 4 D []) = 0%R /\ sumT Rops (nth 5 D []) = 0%R /\ sumT Rops (nth 6 D []) = 0%R).
Proof.
  intros U span u Hs Hu.
  split; [intros Hp HL; pose proof (ders_sums_p1 U span u Hs Hu Hp HL) as H; cbn zeta in *; tauto|].
  split; [intros Hp HL; pose proof (ders_sums_p2 U span u Hs Hu Hp HL) as H; cbn zeta in *; tauto|].
  split; [intros Hp HL; pose proof (ders_sums_p3 U span u Hs Hu Hp HL) as H; cbn zeta in *; tauto|].
  split; [intros Hp HL; pose proof (ders_sums_p4 U span u Hs Hu Hp HL) as H; cbn zeta in *; tauto|].
  split; [intros Hp HL; pose proof (ders_sums_p5 U span u Hs Hu Hp HL) as H; cbn zeta in *; tauto|].
  intros Hp HL; pose proof (ders_sums_p6 U span u Hs Hu Hp HL) as H; cbn zeta in *; tauto.
Qed.
Print Assumptions C03_ders_rows_sum_to_zero_deg_le_6.

(* [G] all (degree, count) pairs with degree >= 1 and count >= degree + 1: the generated clamped knot vector has the documented
   length, is non-decreasing, has end multiplicities degree+1 and passes the validity check *)
Theorem C03_generate_clamped_valid : forall tol8 p n, (0 <= tol8 < 1)%R -> (1 <= p)%nat -> (p + 1 <= n)%nat ->
  exists U, generate Rops tol8 p n true = Ok U /\ length U = (n + p + 1)%nat /\ nthsorted U /\
    (forall i, (i <= p)%nat -> nth i U 0%R = 0%R) /\ (forall i, (n <= i < n + p + 1)%nat -> nth i U 0%R = 1%R) /\
    check Rops p U n = Ok true.
Proof. exact generate_clamped_valid. Qed.
Print Assumptions C03_generate_clamped_valid.

Theorem C03_generate_rejects_zero : forall tol8 p n c, (p = 0 \/ n = 0)%nat -> generate Rops tol8 p n c = Rejected.
Proof. intros tol8 p n c [-> | ->]; unfold generate; [reflexivity|]. rewrite Nat.eqb_refl, orb_true_r. reflexivity. Qed.
Print Assumptions C03_generate_rejects_zero.

(* [G] strictly inside a knot span every one of the p+1 non-vanishing basis functions is strictly positive *)
Theorem C03_basis_strictly_positive_in_open_span : forall (U : list R) (u : R) (span p : nat),
  sortedR U -> (knR U span < u < knR U (span + 1))%R -> (p <= span)%nat -> (span + p < length U)%nat -> (span + 1 < length U)%nat ->
  Forall (fun x => (0 < x)%R) (basis_function Rops p U span u).
Proof. intros U u span p Hs Hu. exact (bf_strictly_positive U u span Hs Hu p). Qed.
Print Assumptions C03_basis_strictly_positive_in_open_span.

(* [G] multiplicity = number of knots within the tolerance of the parameter (by definition of the model: a filter count) *)
Theorem C03_find_multiplicity_spec : forall (tol u : R) (U : list R),
  find_multiplicity Rops tol u U = length (filter (fun k => Rleb (oabs Rops (u - k)%R) tol) U).
Proof. reflexivity. Qed.
Print Assumptions C03_find_multiplicity_spec.

(* [G] all degrees: the single-function variant A2.4 (helpers.basis_function_one) equals the Cox-de Boor recursion, for every
   function index and every parameter except the two documented end special cases (which return 1) *)
Theorem C03_basis_function_one_is_cox_de_boor : forall (U : list R) (i : nat) (u : R) (p : nat),
  sortedR U -> (i + p + 1 < length U)%nat -> ~ (i = 0%nat /\ u = knR U 0) ->
  ~ ((i + p + 2)%nat = length U /\ u = knR U (length U - 1)) ->
  basis_function_one Rops p U i u = N (Ufun U) p i u.
Proof. exact bf_one_is_cox_de_boor. Qed.
Print Assumptions C03_basis_function_one_is_cox_de_boor.

(* the closed right end: the code returns 1 for the last function at the last knot where the half-open recursion gives 0 *)
Theorem C03_basis_function_one_end_convention : forall (U : list R) (p i : nat),
  sortedR U -> (i + p + 2)%nat = length U ->
  basis_function_one Rops p U i (knR U (length U - 1)) = 1%R /\ N (Ufun U) p i (knR U (length U - 1)) = 0%R.
Proof. exact bf_one_end_convention. Qed.
Print Assumptions C03_basis_function_one_end_convention.

(* [G] all degrees: every entry k <= min(order, p) of the single-function derivative algorithm A2.5 is the Eq. 2.9 derivative,
   for every parameter *)
Theorem C03_ders_one_is_eq29 : forall (U : list R) (i : nat) (u : R) (p order k : nat),
  sortedR U -> (i + p + 1 < length U)%nat -> (k <= order)%nat -> (k <= p)%nat ->
  nth k (basis_function_ders_one Rops p U i u order) 0%R = BasisOneR.dN (Ufun U) k p i u.
Proof. exact ders_one_is_dN. Qed.
Print Assumptions C03_ders_one_is_eq29.

(* [B: degrees 1..5, all knot vectors / spans / parameters] A2.3 rows are the Eq. 2.9 derivatives, hence agree with A2.5 *)
Theorem C03_ders_is_eq29_deg_le_5 : forall (U : list R) (p span : nat) (u : R),
  sortedR U -> (1 <= p <= 5)%nat -> (p <= span)%nat -> (span + p < length U)%nat -> (span + 1 < length U)%nat ->
  (knR U span <= u < knR U (span + 1))%R -> forall k r : nat, (k <= p)%nat -> (r <= p)%nat ->
  nth r (nth k (basis_function_ders Rops p U span u p) nil) 0%R = DerivAnalytic.dN (Ufun U) k p (span - p + r) u.
Proof. exact ders_is_dN_deg_le_5. Qed.
Print Assumptions C03_ders_is_eq29_deg_le_5.

Theorem C03_ders_agrees_with_ders_one_deg_le_5 : forall (U : list R) (p span : nat) (u : R),
  sortedR U -> (1 <= p <= 5)%nat -> (p <= span)%nat -> (span + p + 1 < length U)%nat ->
  (knR U span <= u < knR U (span + 1))%R -> forall k r : nat, (k <= p)%nat -> (r <= p)%nat ->
  nth r (nth k (basis_function_ders Rops p U span u p) nil) 0%R =
  nth k (basis_function_ders_one Rops p U (span - p + r) u p) 0%R.
Proof. exact ders_agrees_with_ders_one_deg_le_5. Qed.
Print Assumptions C03_ders_agrees_with_ders_one_deg_le_5.

(* [G] all degrees, every real u: replaces C03_ders_rows_sum_to_zero_deg_le_6 (degree 7 of the property's range included) *)
Theorem C03_ders_rows_sum_to_zero : forall (U : list R) (span p : nat),
  sortedR U -> (p <= span)%nat -> (span + p < length U)%nat -> (span + 1 < length U)%nat ->
  forall (u : R) (order k : nat), (order <= p)%nat -> (1 <= k <= order)%nat ->
  sumT Rops (nth k (basis_function_ders Rops p U span u order) []) = 0%R.
Proof. exact ders_rows_sum_to_zero_general. Qed.
Print Assumptions C03_ders_rows_sum_to_zero.

(* [G] the ndu table of A2.3: basis functions of all lower degrees + knot differences *)
Theorem C03_ndu_table_spec : forall (U : list R) (span : nat) (u : R) (p : nat),
  sortedR U -> (knR U span <= u < knR U (span + 1))%R -> (p <= span)%nat -> (span + p < length U)%nat ->
  (span + 1 < length U)%nat ->
  (forall r j, (r <= j)%nat -> (j <= p)%nat ->
     get2 Rops (ndu_table Rops p U span u) r j = N (Ufun U) j (span - j + r) u) /\
  (forall r j, (r < j)%nat -> (j <= p)%nat ->
     get2 Rops (ndu_table Rops p U span u) j r = (Ufun U (span + r + 1) - Ufun U (span + 1 - (j - r)))%R).
Proof. exact ndu_table_spec. Qed.
Print Assumptions C03_ndu_table_spec.

(* [G] Eq. 2.10 of The NURBS Book (acoef = a_{k,j}, ff p k = p!/(p-k)!) *)
Theorem C03_eq_2_10 : forall U : nat -> R, (forall i, (U i <= U (S i))%R) ->
  forall (s k p i : nat) (u : R), (U s <= u < U (S s))%R ->
  DerivAnalytic.dN U k p i u = (ff p k * sumf (fun j => acoef U p i k j * N U (p - k) (i + j) u) (S k))%R.
Proof. exact eq_2_10. Qed.
Print Assumptions C03_eq_2_10.

(* non-vacuity: degree 7, clamped vector with a double interior knot, requested order 5 *)
Example C03_ders_rows_sum_to_zero_deg7_satisfiable :
  let U := [0; 0; 0; 0; 0; 0; 0; 0; 1; 1; 2; 3; 3; 3; 3; 3; 3; 3; 3]%R in
  forall u : R, sumT Rops (nth 3 (basis_function_ders Rops 7 U 9 u 5) []) = 0%R.
Proof.
  intros U u. subst U. apply ders_rows_sum_to_zero_general; try (cbn [length]; lia).
  intros i j H. cbn [length] in H.
  do 19 (destruct i as [|i]; [do 19 (destruct j as [|j]; [first [exfalso; lia | cbn [kn nth]; rsimp; lra]|]); exfalso; lia|]).
  exfalso; lia.
Qed.


(* non-vacuity: a concrete cubic knot vector with a double interior knot meets the hypotheses *)
Example C03_hypotheses_satisfiable :
  let U := [0;0;0;0;1#4;1#2;1#2;1;1;1;1]%Q in
  (kn Qops U 4 <= 3#10)%Q /\ (3#10 < kn Qops U 5)%Q /\ (3 <= 4)%nat /\ (4 + 3 < length U)%nat /\
  (sumT Qops (basis_function Qops 3 U 4 (3#10)) == 1)%Q.
Proof. cbv zeta. repeat split; try (vm_compute; congruence); try (cbn; lia). Qed.

(* ====================== TRANSLATOR TIE (Proofs/GenTie*.v) ======================
   coq/Gen/*.v is the Gallina rendering of the Python source produced by harness/pytrans.py; every run of ./check regenerates it
   from /repo and compares it function by function with the committed text (evidence: translator_tie).  The theorems below say
   that the hand-written model (the subject of the theorems above) computes, for ALL inputs satisfying the stated
   well-formedness, exactly what the translated source computes.  This block stays LAST in the file: its imports shadow
   model names. *)
From Coq Require Import List QArith Reals Qreals Lia Lra Arith Bool ZArith.
From NV Require Import Scalar.Ops Model.Common Model.Basis Model.Knots Model.KnotIns Model.KnotRem Model.LinAlg Model.Degree
  Gen.Prelude Gen.LinalgInternal Gen.Linalg Gen.Knotvector Gen.Helpers
  Proofs.GenTieSums Proofs.GenTieLinAlg Proofs.GenTieSubst Proofs.GenTieLU Proofs.GenTieLUSolve Proofs.GenTieKnotRem Proofs.GenTieDegree
  Proofs.GenTieLib Proofs.GenTieKnots Proofs.GenTieSpan Proofs.GenTieBasis Proofs.GenTieBasisOne
  Proofs.GenTieDersOne Proofs.GenTieDersLib Proofs.GenTieDers Proofs.GenTieKnotIns.
Local Open Scope nat_scope.



(* [G] helpers.find_span_linear; wf: the loop reads knot_vector[degree+1 .. num_ctrlpts-1] *)
Theorem C03_gen_find_span_linear_R : forall (p : nat) (U : list R) (n : nat) (u : R),
  n <= length U ->
  Helpers.find_span_linear Rops (Z.of_nat p) U (Z.of_nat n) u = GOk (Z.of_nat (Basis.find_span_linear Rops p U n u)).
Proof. exact find_span_linear_tie_R. Qed.
Print Assumptions C03_gen_find_span_linear_R.
Theorem C03_gen_find_span_linear_Q : forall (p : nat) (U : list Q) (n : nat) (u : Q),
  n <= length U ->
  Helpers.find_span_linear Qops (Z.of_nat p) U (Z.of_nat n) u = GOk (Z.of_nat (Basis.find_span_linear Qops p U n u)).
Proof. exact find_span_linear_tie_Q. Qed.
Print Assumptions C03_gen_find_span_linear_Q.

(* [G] helpers.find_span_binsearch; tolq is the `tol` keyword (default 10e-6 = find_span_binsearch__default_tol), it only
   enters int(round((low + high) / 2 + tol)); no sortedness needed: where the Python loop does not terminate (e.g. a
   parameter below the domain) both sides run out of the same fuel *)
Theorem C03_gen_find_span_binsearch_R : forall (tolq : ratio) (tol : R) (p : nat) (U : list R) (num : nat) (u : R),
  (0 < tolq)%Q -> (tolq < 1 # 2)%Q -> 1 <= num -> num + 1 < length U -> p + 1 < length U ->
  Helpers.find_span_binsearch Rops (Z.of_nat p) U (Z.of_nat num) u tolq =
  match Basis.find_span_binsearch Rops tol p U num u with Some m => GOk (Z.of_nat m) | None => GErr OutOfFuel end.
Proof. exact find_span_binsearch_tie_R. Qed.
Print Assumptions C03_gen_find_span_binsearch_R.
Theorem C03_gen_find_span_binsearch_Q : forall (tolq : ratio) (tol : Q) (p : nat) (U : list Q) (num : nat) (u : Q),
  (0 < tolq)%Q -> (tolq < 1 # 2)%Q -> 1 <= num -> num + 1 < length U -> p + 1 < length U ->
  Helpers.find_span_binsearch Qops (Z.of_nat p) U (Z.of_nat num) u tolq =
  match Basis.find_span_binsearch Qops tol p U num u with Some m => GOk (Z.of_nat m) | None => GErr OutOfFuel end.
Proof. exact find_span_binsearch_tie_Q. Qed.
Print Assumptions C03_gen_find_span_binsearch_Q.

(* [G] helpers.find_spans with the default func = find_span_linear *)
Theorem C03_gen_find_spans_R : forall (p : nat) (U : list R) (n : nat) (knots : list R),
  n <= length U ->
  Helpers.find_spans Rops (Z.of_nat p) U (Z.of_nat n) knots (Helpers.find_span_linear Rops) =
  GOk (map (fun u => Z.of_nat (Basis.find_span_linear Rops p U n u)) knots).
Proof. exact find_spans_tie_R. Qed.
Print Assumptions C03_gen_find_spans_R.
Theorem C03_gen_find_spans_Q : forall (p : nat) (U : list Q) (n : nat) (knots : list Q),
  n <= length U ->
  Helpers.find_spans Qops (Z.of_nat p) U (Z.of_nat n) knots (Helpers.find_span_linear Qops) =
  GOk (map (fun u => Z.of_nat (Basis.find_span_linear Qops p U n u)) knots).
Proof. exact find_spans_tie_Q. Qed.
Print Assumptions C03_gen_find_spans_Q.

(* [G] helpers.find_multiplicity (tol = the keyword argument): no condition *)
Theorem C03_gen_find_multiplicity_R : forall (tol u : R) (U : list R),
  Helpers.find_multiplicity Rops u U tol = GOk (Z.of_nat (Basis.find_multiplicity Rops tol u U)).
Proof. exact find_multiplicity_tie_R. Qed.
Print Assumptions C03_gen_find_multiplicity_R.
Theorem C03_gen_find_multiplicity_Q : forall (tol u : Q) (U : list Q),
  Helpers.find_multiplicity Qops u U tol = GOk (Z.of_nat (Basis.find_multiplicity Qops tol u U)).
Proof. exact find_multiplicity_tie_Q. Qed.
Print Assumptions C03_gen_find_multiplicity_Q.

(* [G] helpers.basis_function (A2.2); wf: degree <= span + 1 (else knot_vector[span + 1 - j] wraps around), span + degree < len *)
Theorem C03_gen_basis_function_R : forall (p : nat) (U : list R) (sp : nat) (u : R),
  p <= sp + 1 -> sp + p < length U ->
  Helpers.basis_function Rops (Z.of_nat p) U (Z.of_nat sp) u = GOk (Basis.basis_function Rops p U sp u).
Proof. exact basis_function_tie_R. Qed.
Print Assumptions C03_gen_basis_function_R.
Theorem C03_gen_basis_function_Q : forall (p : nat) (U : list Q) (sp : nat) (u : Q),
  p <= sp + 1 -> sp + p < length U ->
  Helpers.basis_function Qops (Z.of_nat p) U (Z.of_nat sp) u = GOk (Basis.basis_function Qops p U sp u).
Proof. exact basis_function_tie_Q. Qed.
Print Assumptions C03_gen_basis_function_Q.

(* [G] helpers.basis_functions (zip over spans and knots) *)
Theorem C03_gen_basis_functions_R : forall (p : nat) (U : list R) (spans : list nat) (us : list R),
  (forall sp, In sp spans -> p <= sp + 1 /\ sp + p < length U) ->
  Helpers.basis_functions Rops (Z.of_nat p) U (map Z.of_nat spans) us = GOk (Basis.basis_functions Rops p U spans us).
Proof. exact basis_functions_tie_R. Qed.
Print Assumptions C03_gen_basis_functions_R.
Theorem C03_gen_basis_functions_Q : forall (p : nat) (U : list Q) (spans : list nat) (us : list Q),
  (forall sp, In sp spans -> p <= sp + 1 /\ sp + p < length U) ->
  Helpers.basis_functions Qops (Z.of_nat p) U (map Z.of_nat spans) us = GOk (Basis.basis_functions Qops p U spans us).
Proof. exact basis_functions_tie_Q. Qed.
Print Assumptions C03_gen_basis_functions_Q.

(* [G] helpers.basis_function_one (A2.4); wf: span + degree + 1 < len *)
Theorem C03_gen_basis_function_one_R : forall (p : nat) (U : list R) (sp : nat) (u : R),
  sp + p + 1 < length U ->
  Helpers.basis_function_one Rops (Z.of_nat p) U (Z.of_nat sp) u = GOk (Basis.basis_function_one Rops p U sp u).
Proof. exact basis_function_one_tie_R. Qed.
Print Assumptions C03_gen_basis_function_one_R.
Theorem C03_gen_basis_function_one_Q : forall (p : nat) (U : list Q) (sp : nat) (u : Q),
  sp + p + 1 < length U ->
  Helpers.basis_function_one Qops (Z.of_nat p) U (Z.of_nat sp) u = GOk (Basis.basis_function_one Qops p U sp u).
Proof. exact basis_function_one_tie_Q. Qed.
Print Assumptions C03_gen_basis_function_one_Q.

(* [G] linalg.linspace (the literal 10e-8 of the source is the model's tol8 argument: lit_10e_8 = olit K 1 10000000): no condition *)
Theorem C03_gen_linspace_R : forall (start stop : R) (num decimals : Z),
  Linalg.linspace Rops start stop num decimals = GOk (Knots.linspace Rops (lit_10e_8 Rops) start stop (Z.to_nat num)).
Proof. exact linspace_tie_R. Qed.
Print Assumptions C03_gen_linspace_R.
Theorem C03_gen_linspace_Q : forall (start stop : Q) (num decimals : Z),
  Linalg.linspace Qops start stop num decimals = GOk (Knots.linspace Qops (lit_10e_8 Qops) start stop (Z.to_nat num)).
Proof. exact linspace_tie_Q. Qed.
Print Assumptions C03_gen_linspace_Q.

(* [G] knotvector.generate: ValueError exactly when the model rejects; no other condition *)
Theorem C03_gen_generate_R : forall (p n : nat) (clamped : bool),
  Knotvector.generate Rops (Z.of_nat p) (Z.of_nat n) clamped =
  res_to_gres (fun x => x) ValueError IndexError (Knots.generate Rops (lit_10e_8 Rops) p n clamped).
Proof. exact generate_tie_R. Qed.
Print Assumptions C03_gen_generate_R.
Theorem C03_gen_generate_Q : forall (p n : nat) (clamped : bool),
  Knotvector.generate Qops (Z.of_nat p) (Z.of_nat n) clamped =
  res_to_gres (fun x => x) ValueError IndexError (Knots.generate Qops (lit_10e_8 Qops) p n clamped).
Proof. exact generate_tie_Q. Qed.
Print Assumptions C03_gen_generate_Q.

(* [G] knotvector.normalize (the final rounding to `decimals` digits is not modelled: fround = identity) *)
Theorem C03_gen_normalize_R : forall (U : list R) (decimals : Z),
  Knotvector.normalize Rops U decimals = res_to_gres (fun x => x) ValueError IndexError (Knots.normalize Rops U).
Proof. exact normalize_tie_R. Qed.
Print Assumptions C03_gen_normalize_R.
Theorem C03_gen_normalize_Q : forall (U : list Q) (decimals : Z),
  Knotvector.normalize Qops U decimals = res_to_gres (fun x => x) ValueError IndexError (Knots.normalize Qops U).
Proof. exact normalize_tie_Q. Qed.
Print Assumptions C03_gen_normalize_Q.

(* [G] knotvector.check *)
Theorem C03_gen_check_R : forall (p : nat) (U : list R) (n : nat),
  Knotvector.check Rops (Z.of_nat p) U (Z.of_nat n) = res_to_gres (fun x => x) ValueError IndexError (Knots.check Rops p U n).
Proof. exact check_tie_R. Qed.
Print Assumptions C03_gen_check_R.
Theorem C03_gen_check_Q : forall (p : nat) (U : list Q) (n : nat),
  Knotvector.check Qops (Z.of_nat p) U (Z.of_nat n) = res_to_gres (fun x => x) ValueError IndexError (Knots.check Qops p U n).
Proof. exact check_tie_Q. Qed.
Print Assumptions C03_gen_check_Q.

(* [G] helpers.basis_function_ders (A2.3); wf as for basis_function plus order <= degree.  The Python code reuses one
   array `a` for all function indices, the model uses a fresh one: the proof shows stale entries are never read *)
Theorem C03_gen_basis_function_ders_R : forall (p : nat) (U : list R) (sp : nat) (u : R) (order : nat),
  p <= sp + 1 -> sp + p < length U -> order <= p ->
  Helpers.basis_function_ders Rops (Z.of_nat p) U (Z.of_nat sp) u (Z.of_nat order) = GOk (Basis.basis_function_ders Rops p U sp u order).
Proof. exact basis_function_ders_tie_R. Qed.
Print Assumptions C03_gen_basis_function_ders_R.
Theorem C03_gen_basis_function_ders_Q : forall (p : nat) (U : list Q) (sp : nat) (u : Q) (order : nat),
  p <= sp + 1 -> sp + p < length U -> order <= p ->
  Helpers.basis_function_ders Qops (Z.of_nat p) U (Z.of_nat sp) u (Z.of_nat order) = GOk (Basis.basis_function_ders Qops p U sp u order).
Proof. exact basis_function_ders_tie_Q. Qed.
Print Assumptions C03_gen_basis_function_ders_Q.

(* [G] helpers.basis_function_ders_one (A2.5); wf: span + degree + 1 < len, order <= degree *)
Theorem C03_gen_basis_function_ders_one_R : forall (p : nat) (U : list R) (sp : nat) (u : R) (order : nat),
  sp + p + 1 < length U -> order <= p ->
  Helpers.basis_function_ders_one Rops (Z.of_nat p) U (Z.of_nat sp) u (Z.of_nat order) = GOk (Basis.basis_function_ders_one Rops p U sp u order).
Proof. exact basis_function_ders_one_tie_R. Qed.
Print Assumptions C03_gen_basis_function_ders_one_R.
Theorem C03_gen_basis_function_ders_one_Q : forall (p : nat) (U : list Q) (sp : nat) (u : Q) (order : nat),
  sp + p + 1 < length U -> order <= p ->
  Helpers.basis_function_ders_one Qops (Z.of_nat p) U (Z.of_nat sp) u (Z.of_nat order) = GOk (Basis.basis_function_ders_one Qops p U sp u order).
Proof. exact basis_function_ders_one_tie_Q. Qed.
Print Assumptions C03_gen_basis_function_ders_one_Q.

(* non-vacuity: hypotheses satisfiable and both sides evaluated on degree 3 with a repeated interior knot *)
Example C03_gen_nonvacuous :
  let U := [0; 0; 0; 0; 1#4; 1#2; 1#2; 3#4; 1; 1; 1; 1]%Q in
  (3 <= 4 + 1 /\ 4 + 3 < length U /\ 8 + 1 < length U)
  /\ Helpers.basis_function Qops 3 U 4 (3#10)%Q = GOk [16#125; 56#125; 21#50; 1#250]%Q
  /\ Helpers.basis_function_one Qops 3 U 3 (3#10)%Q = GOk (21#50)%Q
  /\ Helpers.find_span_binsearch Qops 3 U 8 (1#2)%Q (Helpers.find_span_binsearch__default_tol Qops) = GOk 6%Z
  /\ Helpers.find_span_linear Qops 3 U 8 (1#2)%Q = GOk 6%Z
  /\ Helpers.find_multiplicity Qops (1#2)%Q U (Helpers.find_multiplicity__default_tol Qops) = GOk 2%Z.
Proof. cbv zeta. repeat split; try (vm_compute; reflexivity); simpl; lia. Qed.

