(* C02 - Derivatives returned are the true derivatives of the shape.
   "For every curve and surface and every parameter in the domain, the k-th (and mixed k,l-th) derivative vectors
    returned for any requested order equal the exact derivatives of the position function, for rational shapes too
    and for orders above the degree (zero for non-rational shapes).  All shipped derivative algorithms, the derivative
    (hodograph) curve and surface constructors and the tangent/normal queries agree with these values; normalised
    tangents and normals have unit length and the normal is orthogonal to both tangents."

   PARTIAL.  What is proved here (about Model/Derivs.v, Model/Basis.v at the real-number instance):
     [G] structure: order-0 entry = evaluated point; vectors of order > degree are zero (both evaluator families);
     [G] quotient rule: the output of A4.2 satisfies the Leibniz identity of A = w * C for EVERY order, i.e. it is the
         k-th derivative of A/w whenever its input is the list of derivatives of (A, w);  [B] same for A4.4, k, l <= 3;
     [G] A2.3 row 0 = A2.2 (so, with C03, the Cox-de Boor functions);
     [B] A2.3 rows = the algebraic derivative recursion Eq. 2.9 (degree <= 5), rows sum to zero (degree <= 6), symbolic window;
     [B] A3.4 = A3.2 for degree <= 3 and A3.8 = A3.6 (triangle k+l <= order) for bi-degree <= (2,2), every order 0..p+2, symbolic
         windows and control values;
     [G] hodograph control points: sum dN1_i P_i = sum N_{i+1,p-1} Q_i (dN1 = algebraic derivative Eq. 2.7), A3.3 row 1 = Q;
     [G] normal orthogonal to both tangents, unit vector has norm 1.
   NOT proved: that Eq. 2.9 is the analytic derivative (is_derive), the general-degree version of the [B] results, the
   agreement of A3.4 with A3.2 beyond degree 3 and of A3.8 with A3.6 beyond bi-degree (2,2); the hodograph constructors are covered only for the control-point formula relative to Eq. 2.7.  Those parts of the
   statement are tied only by the correspondence against the exact piecewise-polynomial oracle (harness/props/C02.py).
   The full statement is C02_derivatives_are_exact_full below (a Definition, not a theorem). *)
From Coq Require Import List QArith Reals Lra Lia Arith Bool.
From NV Require Import Scalar.Ops Model.Common Model.Basis Model.Knots Model.Eval Model.Degree Model.Derivs.
From NV Require Import Model.Common Model.Basis Model.Knots Model.Eval Model.Degree Model.Derivs Proofs.Boehm Proofs.DerivAnalytic Proofs.BasisOneR Proofs.DerivLink Proofs.DerivLinkCurve Proofs.EvalR Proofs.BasisR Proofs.DerivsR Proofs.DerivsRatSurf Proofs.LeibnizRule Proofs.DerivLinkAbs Proofs.DerivRational Proofs.DerivSurface Proofs.DerivsRatSurfGen Proofs.DerivRationalSurface Proofs.DerivTangents Proofs.DerivGeneralInst.
From NV Require Import Proofs.DersEq210 Proofs.DersNdu Proofs.DersGeneral Proofs.DersGeneralAnalytic Proofs.DersGeneralOne Proofs.DersGeneralCurve.
From NV Require Import Proofs.Boehm Proofs.DerivAnalytic Proofs.BasisOneR Proofs.DerivLink Proofs.DerivLinkCurve Proofs.EvalR.
From NV Require Import Proofs.BasisR Proofs.DerivsR Proofs.DerivsRatSurf Proofs.DersRow0 Proofs.DerivsOrder0 Proofs.DersWindow Proofs.DersWindow56 Proofs.DerivsAgree Proofs.DerivsAgreeSurf Proofs.Boehm Proofs.Hodograph.
From NV Require Import Run.DerivsH.
From NV Require Import Proofs.DerivCptsSpec Proofs.DerivsAgreeGeneral Proofs.DerivsAgreeGeneralSurf.
From NV Require Import Proofs.HodographObj.
Import ListNotations.

(* ------------------------------------------------------------------------------------------------ structure *)
(* [G] every degree, knot vector, span, parameter, requested order: row 0 of A2.3 is A2.2 *)
Theorem C02_ders_row0_is_basis_function : forall (U : list R) (span : nat) (u : R) (p order : nat),
  nth 0 (basis_function_ders Rops p U span u order) [] = basis_function Rops p U span u.
Proof. exact ders_row0_is_basis_function. Qed.
Print Assumptions C02_ders_row0_is_basis_function.

(* [G] derivatives(u, order)[0] of a curve object (default evaluators) is the evaluated point, rational or not *)
Theorem C02_order0_is_point : forall normalize rational dim p (U : list R) P u order D,
  Curve_derivatives Rops normalize rational false dim p U P u order = Ok D ->
  nth 0 D [] = if rational then project Rops (curve_point Rops dim p U P u) else curve_point Rops dim p U P u.
Proof. exact Curve_derivatives_order0. Qed.
Print Assumptions C02_order0_is_point.

(* [G] non-rational curve objects, both evaluator families (alg2 = CurveEvaluator2): every vector of order above the degree is zero *)
Theorem C02_curve_derivs_zero_above_degree : forall normalize alg2 dim p (U : list R) P u order D k,
  Curve_derivatives Rops normalize false alg2 dim p U P u order = Ok D -> (p < k <= order)%nat ->
  nth k D [] = vzero Rops dim.
Proof. exact Curve_derivatives_zero_above_degree. Qed.
Print Assumptions C02_curve_derivs_zero_above_degree.

(* [G] non-rational surface objects, both evaluator families (as repaired): SKL[k][l] = 0 when k > degree_u or l > degree_v *)
Theorem C02_surface_derivs_zero_above_degree : forall normalize alg2 dim pu pv (Uu Uv : list R) su sv P u v order D k l,
  Surface_derivatives Rops normalize false alg2 dim pu pv Uu Uv su sv P u v order = Ok D ->
  (k <= order)%nat -> (l <= order)%nat -> (pu < k \/ pv < l)%nat -> get3 D k l = vzero Rops dim.
Proof. exact Surface_derivatives_zero_above_degree. Qed.
Print Assumptions C02_surface_derivs_zero_above_degree.

(* ------------------------------------------------------------------------------------------------ rational shapes *)
(* [G] A4.2, every order, every dimension d: with w_i = last coordinate of CKw[i] and A_k = the other coordinates,
       sum_{i=0..k} C(k,i) * w_i * CK[k-i] = A_k   coordinate-wise for all k <= order.
   This is the k-th derivative of the identity A(u) = w(u) * C(u): by induction on k the solution CK[k] is unique, so CK[k] is the
   k-th derivative of A/w whenever CKw is the list of derivatives of (A, w). *)
Theorem C02_rat_curve_derivs_leibniz : forall (CKw : list (list R)) d order,
  (forall k, (k <= order)%nat -> length (nth k CKw []) = S d) -> wd CKw 0 <> 0%R ->
  let CK := rat_curve_derivs Rops CKw order in
  length CK = S order /\
  forall k c, (k <= order)%nat -> (c < d)%nat ->
    lsum (seq 0 (S k)) (fun i => (INR (binom k i) * wd CKw i * nth c (nth (k - i) CK []) 0)%R) = Ad CKw k c.
Proof. exact rat_curve_derivs_leibniz. Qed.
Print Assumptions C02_rat_curve_derivs_leibniz.

(* [B] A4.4 on a symbolic array of numerator/weight partials (one coordinate; coordinates are independent), orders 2 and 3:
       sum_{i<=k} sum_{j<=l} C(k,i) C(l,j) w_{ij} S_{k-i,l-j} = a_{kl} for every entry of the computed square *)
Theorem C02_rat_surface_derivs_leibniz_order_le_3_partial : forall a w : nat -> nat -> R, w 0%nat 0%nat <> 0%R ->
  (forall k l, (k <= 2)%nat -> (l <= 2)%nat ->
     leibniz2 w (fun k l => nth 0 (get3 (rat_surface_derivs Rops 2 (SKLw_sym a w 2) 2) k l) 0%R) k l = a k l) /\
  (forall k l, (k <= 3)%nat -> (l <= 3)%nat ->
     leibniz2 w (fun k l => nth 0 (get3 (rat_surface_derivs Rops 2 (SKLw_sym a w 3) 3) k l) 0%R) k l = a k l).
Proof. intros a w Hw. split; [exact (rat_surface_leibniz_order2 a w Hw)|exact (rat_surface_leibniz_order3 a w Hw)]. Qed.
Print Assumptions C02_rat_surface_derivs_leibniz_order_le_3_partial.

(* ------------------------------------------------------------------------------------------------ basis-function derivatives *)
(* [B] degree 3 and 4 shown here (1, 2, 5 are in Proofs/DersWindow*.v): on the symbolic window, all multiplicity patterns,
       row k of A2.3 is the Eq. 2.9 recursion dbasis (k-th derivative expressed through (k-1)-th derivatives of degree p-1) *)
Theorem C02_ders_is_eq29_degree3_partial : forall k0 k1 k2 k3 k4 k5 k6 k7 u : R,
  (k0 <= k1 -> k1 <= k2 -> k2 <= k3 -> k3 <= u -> u < k4 -> k4 <= k5 -> k5 <= k6 -> k6 <= k7 ->
  let W := [k0; k1; k2; k3; k4; k5; k6; k7] in
  forall k, (k <= 3)%nat -> nth k (basis_function_ders Rops 3 W 3 u 3) [] = dbasis W 3 u k 3)%R.
Proof. exact ders_is_dbasis_3. Qed.
Print Assumptions C02_ders_is_eq29_degree3_partial.

Theorem C02_ders_is_eq29_degree4_partial : forall k0 k1 k2 k3 k4 k5 k6 k7 k8 k9 u : R,
  (k0 <= k1 -> k1 <= k2 -> k2 <= k3 -> k3 <= k4 -> k4 <= u -> u < k5 -> k5 <= k6 -> k6 <= k7 -> k7 <= k8 -> k8 <= k9 ->
  let W := [k0; k1; k2; k3; k4; k5; k6; k7; k8; k9] in
  forall k, (k <= 4)%nat -> nth k (basis_function_ders Rops 4 W 4 u 4) [] = dbasis W 4 u k 4)%R.
Proof. exact ders_is_dbasis_4. Qed.
Print Assumptions C02_ders_is_eq29_degree4_partial.

Theorem C02_ders_is_eq29_degree5_partial : forall k0 k1 k2 k3 k4 k5 k6 k7 k8 k9 k10 k11 u : R,
  (k0 <= k1 -> k1 <= k2 -> k2 <= k3 -> k3 <= k4 -> k4 <= k5 -> k5 <= u -> u < k6 -> k6 <= k7 -> k7 <= k8 -> k8 <= k9 -> k9 <= k10 -> k10 <= k11 ->
  let W := [k0; k1; k2; k3; k4; k5; k6; k7; k8; k9; k10; k11] in
  forall k, (k <= 5)%nat -> nth k (basis_function_ders Rops 5 W 5 u 5) [] = dbasis W 5 u k 5)%R.
Proof. exact ders_is_dbasis_5. Qed.
Print Assumptions C02_ders_is_eq29_degree5_partial.

(* [B] derivative rows sum to zero (derivative of the partition of unity), degree 6 shown (1..5 in Proofs/DersWindow.v) *)
Theorem C02_ders_sum_zero_degree6_partial : forall k0 k1 k2 k3 k4 k5 k6 k7 k8 k9 k10 k11 k12 k13 u : R,
  (k0 <= k1 -> k1 <= k2 -> k2 <= k3 -> k3 <= k4 -> k4 <= k5 -> k5 <= k6 -> k6 <= u -> u < k7 -> k7 <= k8 -> k8 <= k9 -> k9 <= k10 -> k10 <= k11 -> k11 <= k12 -> k12 <= k13 ->
  let W := [k0; k1; k2; k3; k4; k5; k6; k7; k8; k9; k10; k11; k12; k13] in
  forall k, (1 <= k <= 6)%nat -> sumT Rops (nth k (basis_function_ders Rops 6 W 6 u 6) []) = 0)%R.
Proof. exact ders_sum_zero_6. Qed.
Print Assumptions C02_ders_sum_zero_degree6_partial.

(* ------------------------------------------------------------------------------------------------ the two evaluator families *)
(* [B] degree 3 shown (1, 2 in Proofs/DerivsAgree.v): A3.4 (derivative control points A3.3 + lower-degree basis functions) and A3.2
       (basis-function derivatives) return the same vectors for every order 0..p+2, symbolic window and control values *)
Theorem C02_evaluator_families_agree_degree3_partial : forall k0 k1 k2 k3 k4 k5 k6 k7 u a0 a1 a2 a3 : R,
  (k0 <= k1 -> k1 <= k2 -> k2 <= k3 -> k3 <= u -> u < k4 -> k4 <= k5 -> k5 <= k6 -> k6 <= k7 ->
  let W := [k0; k1; k2; k3; k4; k5; k6; k7] in let P := [[a0]; [a1]; [a2]; [a3]] in
  forall order, (order <= 5)%nat -> curve_derivs2 Rops 1 3 W P u order = curve_derivs Rops 1 3 W P u order)%R.
Proof. exact evaluators_agree_3. Qed.
Print Assumptions C02_evaluator_families_agree_degree3_partial.

(* [B] bi-degree (2,2) shown ((1,1), (2,1), (1,2) in Proofs/DerivsAgreeSurf.v): A3.8 with the repaired A3.7 and A3.6 return the same
       SKL[k][l] on the contract triangle k + l <= order for every order 0..4 - including order > degree, the case in which the pinned
       tree raised TypeError - symbolic knot windows in both directions and symbolic control values *)
Theorem C02_surface_evaluator_families_agree_degree22_partial :
  forall s0 s1 s2 s3 s4 s5 u t0 t1 t2 t3 t4 t5 v a00 a01 a02 a10 a11 a12 a20 a21 a22 : R,
  (s0 <= s1 -> s1 <= s2 -> s2 <= u -> u < s3 -> s3 <= s4 -> s4 <= s5 ->
   t0 <= t1 -> t1 <= t2 -> t2 <= v -> v < t3 -> t3 <= t4 -> t4 <= t5 ->
  let Wu := [s0; s1; s2; s3; s4; s5] in let Wv := [t0; t1; t2; t3; t4; t5] in
  let P := [[a00]; [a01]; [a02]; [a10]; [a11]; [a12]; [a20]; [a21]; [a22]] in
  forall order k l, (order <= 4)%nat -> (k + l <= order)%nat ->
  get3 (surface_derivs2 Rops 1 2 2 Wu Wv 3 3 P u v order) k l = get3 (surface_derivs Rops 1 2 2 Wu Wv 3 3 P u v order) k l)%R.
Proof. exact surface_evaluators_agree_22. Qed.
Print Assumptions C02_surface_evaluator_families_agree_degree22_partial.

(* ------------------------------------------------------------------------------------------------ hodograph control points *)
(* [G] every degree p = S p' >= 1, sorted knot sequence with any multiplicities, every n and every u in the domain [U_p, U_n):
       with the algebraic derivative dN1 of Eq. 2.7,  sum_{i<n} dN1_i(u) P_i = sum_{i<n-1} N_{i+1,p-1}(u) Q_i,
       Q_i = p (P_{i+1} - P_i) / (U_{i+p+1} - U_{i+1})  - the control points that A3.3 / derivative_curve compute (next theorem).
       (That dN1 is the analytic derivative of N_{i,p} is not proved.) *)
Theorem C02_hodograph_control_points : forall (U : nat -> R), (forall i, (U i <= U (S i))%R) ->
  forall p' (P : nat -> R) u n, (U (S p') <= u < U (S n))%R ->
  Rsum (fun i => (dN1 U p' u i * P i)%R) (S n) = Rsum (fun i => (N U p' (S i) u * Qc U p' P i)%R) n.
Proof. exact hodograph_control_points. Qed.
Print Assumptions C02_hodograph_control_points.

Theorem C02_deriv_cpts_row1_is_Q : forall p (kv : list R) (cpts : list (list R)) n i c,
  (S i < n)%nat -> length cpts = n -> (c < length (nth (S i) cpts []))%nat -> (c < length (nth i cpts []))%nat ->
  nth c (nth i (nth 1 (curve_deriv_cpts Rops p kv cpts 0 (n - 1) 1) []) []) 0%R =
  (INR p * (nth c (nth (S i) cpts []) 0 - nth c (nth i cpts []) 0) / (kn Rops kv (i + p + 1) - kn Rops kv (i + 1)))%R.
Proof. exact deriv_row_is_Q. Qed.
Print Assumptions C02_deriv_cpts_row1_is_Q.

(* ------------------------------------------------------------------------------------------------ tangent / normal *)
(* [G] the normal returned by the model is the cross product of the two tangents of the same call and is orthogonal to both *)
Theorem C02_normal_orthogonal_to_tangents : forall normalize rational alg2 dim pu pv (Uu Uv : list R) su sv P u v pt nv,
  normal_surface Rops normalize rational alg2 dim pu pv Uu Uv su sv P u v = Ok (pt, nv) ->
  exists Su Sv, tangent_surface Rops normalize rational alg2 dim pu pv Uu Uv su sv P u v = Ok (pt, Su, Sv) /\ nv = cross Rops Su Sv /\
    (length Su = 3%nat -> length Sv = 3%nat -> vdot Rops nv Su = 0%R /\ vdot Rops nv Sv = 0%R).
Proof. exact normal_orthogonal_to_tangents. Qed.
Print Assumptions C02_normal_orthogonal_to_tangents.

(* [G over R] v / sqrt(v.v) has unit length (what linalg.vector_normalize computes; sqrt itself is not modelled) *)
Theorem C02_unit_vector_has_norm_1 : forall v : list R, (0 < vdot Rops v v)%R ->
  vdot Rops (map (fun x => (x / sqrt (vdot Rops v v))%R) v) (map (fun x => (x / sqrt (vdot Rops v v))%R) v) = 1%R.
Proof. exact unit_vector_has_norm_1. Qed.
Print Assumptions C02_unit_vector_has_norm_1.

(* ------------------------------------------------------------------------------------------------ the full statement (NOT proved) *)
(* C : R -> list R is the position function of the model (point evaluation), derivable k times from the right at u, and the model's
   derivative vectors are those derivatives.  Stating it needs an analytic derivative (Coquelicot is_derive / Rderiv); kept abstract. *)
Definition C02_derivatives_are_exact_full (is_kth_right_derivative : (R -> R) -> nat -> R -> R -> Prop) : Prop :=
  forall normalize rational alg2 dim p (U : list R) P u order D,
    Curve_derivatives Rops normalize rational alg2 dim p U P u order = Ok D ->
    forall k c, (k <= order)%nat -> (c < (if rational then Nat.pred dim else dim))%nat ->
      is_kth_right_derivative
        (fun x => nth c (match Curve_derivatives Rops normalize rational alg2 dim p U P x 0 with Ok D0 => nth 0 D0 [] | _ => [] end) 0%R)
        k u (nth c (nth k D []) 0%R).

(* ------------------------------------------------------------------------------------------------ non-vacuity *)
(* a rational quadratic with a double... interior knot: hypotheses of the Leibniz theorem hold for the model's own A3.2 output, and the
   identity holds at the executable instance (order 4 > degree 2) *)
Example C02_leibniz_hypotheses_satisfiable :
  let U := [0; 0; 0; 1#2; 1; 1; 1]%Q in
  let Pw := [[0; 0; 1]; [1; 2; 2]; [3; 1; 1]; [4; 4; 1#2]]%Q in
  let CKw := curve_derivs Qops 3 2 U Pw (3#10) 4 in
  let CK := rat_curve_derivs Qops CKw 4 in
  (forall k, (k <= 4)%nat -> length (nth k CKw []) = 3%nat) /\ ~ (vlast Qops (nth 0 CKw []) == 0)%Q /\
  (* k = 2, coordinate 0:  w0*C2 + 2*w1*C1 + w2*C0 = A2 *)
  (vlast Qops (nth 0 CKw []) * nth 0 (nth 2 CK []) 0 + 2 * vlast Qops (nth 1 CKw []) * nth 0 (nth 1 CK []) 0
     + vlast Qops (nth 2 CKw []) * nth 0 (nth 0 CK []) 0 == nth 0 (nth 2 CKw []) 0)%Q.
Proof.
  cbv zeta. split; [|split].
  - intros k Hk. assert (k = 0 \/ k = 1 \/ k = 2 \/ k = 3 \/ k = 4)%nat as Hc by lia.
    destruct Hc as [-> | [-> | [-> | [-> | ->]]]]; vm_compute; reflexivity.
  - vm_compute. discriminate.
  - vm_compute. reflexivity.
Qed.

(* the window hypotheses are satisfiable with repeated knots (clamped start, double interior knot) *)
Example C02_window_hypotheses_satisfiable :
  (0 <= 0 /\ 0 <= 0 /\ 0 <= 0 /\ 0 <= 3/10 /\ 3/10 < 1/2 /\ 1/2 <= 1/2 /\ 1/2 <= 1 /\ 1 <= 1)%R.
Proof. repeat split; lra. Qed.

(* order above the degree on a non-rational surface with the alternative evaluator (the pinned tree raised TypeError here):
   the model returns zero vectors outside the degree and the exact mixed partial inside *)
Example C02_surface_alg2_order_above_degree :
  let Uu := [0; 0; 1; 1]%Q in let Uv := [0; 0; 0; 1; 1; 1]%Q in
  let P := [[0; 0; 0]; [0; 1; 1]; [0; 2; 0]; [1; 0; 1]; [1; 1; 3]; [1; 2; 1]]%Q in
  match Surface_derivatives Qops true false true 3 1 2 Uu Uv 2 3 P (1#2) (1#4) 3 with
  | Ok D => get3 D 2 0 = [0; 0; 0]%Q /\ get3 D 1 2 = [0; 0; -4]%Q /\ get3 D 0 3 = [0; 0; 0]%Q
  | _ => False
  end.
Proof. vm_compute. repeat split. Qed.

(* ======================================================================================================================
   ANALYTIC LINK (added in round 2): the algebraic derivative formulas ARE the true, limit-based derivatives.
   derivable_pt_lim is the standard library's epsilon-delta derivative; right_derivable_pt_lim its one-sided version
   (Proofs/DerivAnalytic.v); kth_deriv_on a b k f g says g is the k-th iterated derivative of f on the open interval (a,b). *)

(* [G] all degrees, all non-decreasing knot sequences with any multiplicities, every non-empty span: the Eq. 2.9 recursion dN
   is, order by order, the analytic derivative of the Cox-de Boor function *)
Theorem C02_eq29_is_the_true_derivative : forall U : nat -> R, (forall i, U i <= U (S i))%R ->
  forall (k j p i : nat) (u : R), (U k < u < U (S k))%R ->
  derivable_pt_lim (fun x => DerivAnalytic.dN U j p i x) u (DerivAnalytic.dN U (S j) p i u).
Proof. exact dN_is_kth_derivative. Qed.
Print Assumptions C02_eq29_is_the_true_derivative.

(* [G] at a knot the derivative is taken from the right (the property's convention) *)
Theorem C02_eq29_right_derivative_at_knot : forall U : nat -> R, (forall i, U i <= U (S i))%R ->
  forall k j p i : nat, (U k < U (S k))%R ->
  right_derivable_pt_lim (fun x => DerivAnalytic.dN U j p i x) (U k) (DerivAnalytic.dN U (S j) p i (U k)).
Proof. exact dN_right_derivative_at_knot. Qed.
Print Assumptions C02_eq29_right_derivative_at_knot.

(* [G] all degrees: the single-function derivative algorithm A2.5 (helpers.basis_function_ders_one) returns the true k-th
   derivatives of N_{i,p} on every open knot span *)
Theorem C02_ders_one_is_the_true_derivative : forall (U : list R) (i p order : nat),
  sortedR U -> (i + p + 1 < length U)%nat -> forall k k' : nat, (k' <= order)%nat -> (k' <= p)%nat ->
  kth_deriv_on (Ufun U k) (Ufun U (S k)) k' (fun x => N (Ufun U) p i x)
               (fun x => nth k' (basis_function_ders_one Rops p U i x order) 0%R).
Proof. exact ders_one_is_true_derivative. Qed.
Print Assumptions C02_ders_one_is_the_true_derivative.

(* [B: degrees 1..5; ALL knot vectors, spans, parameters, orders] A2.3 (helpers.basis_function_ders) returns the true k-th
   derivatives of the p+1 non-vanishing basis functions, inside the span and as right derivatives at its left knot *)
Theorem C02_ders_is_the_true_derivative_deg_le_5 : forall (U : list R) (p span : nat),
  sortedR U -> (1 <= p <= 5)%nat -> (p <= span)%nat -> (span + p < length U)%nat -> (span + 1 < length U)%nat ->
  forall k r : nat, (k <= p)%nat -> (r <= p)%nat ->
  kth_deriv_on (knR U span) (knR U (span + 1)) k (fun x => N (Ufun U) p (span - p + r) x)
               (fun x => nth r (nth k (basis_function_ders Rops p U span x p) nil) 0%R).
Proof. exact ders_is_true_derivative_deg_le_5. Qed.
Print Assumptions C02_ders_is_the_true_derivative_deg_le_5.

Theorem C02_ders_right_derivative_at_knot_deg_le_5 : forall (U : list R) (p span : nat),
  sortedR U -> (1 <= p <= 5)%nat -> (p <= span)%nat -> (span + p < length U)%nat -> (span + 1 < length U)%nat ->
  forall k r : nat, (S k <= p)%nat -> (r <= p)%nat -> (knR U span < knR U (span + 1))%R ->
  right_derivable_pt_lim (fun x => nth r (nth k (basis_function_ders Rops p U span x p) nil) 0%R)
    (knR U span) (nth r (nth (S k) (basis_function_ders Rops p U span (knR U span) p) nil) 0%R).
Proof. exact ders_right_derivative_at_knot_deg_le_5. Qed.
Print Assumptions C02_ders_right_derivative_at_knot_deg_le_5.

(* [B: degrees 1..5; non-rational curves, default evaluator A3.2; every order incl. orders above the degree] the derivative
   vectors returned by the model are the true k-th derivatives of the curve (the Cox-de Boor definition curve_def of C01),
   coordinate by coordinate, on every open knot span, and right derivatives on the half-open span incl. its left knot *)
Theorem C02_curve_derivs_are_the_true_derivatives_deg_le_5 : forall (U : list R) (P : list (list R)) (p dim : nat),
  sortedR U -> wf_net P dim -> (1 <= p <= 5)%nat -> (p < length P)%nat -> length U = (length P + p + 1)%nat ->
  forall s : nat, (p <= s < length P)%nat -> forall order k d : nat, (k <= order)%nat -> (d < dim)%nat ->
  kth_deriv_on (knR U s) (knR U (s + 1)) k (fun x => curve_def U p P d x)
               (fun x => nth d (nth k (Derivs.curve_derivs Rops dim p U P x order) nil) 0%R).
Proof. exact curve_derivs_is_true_derivative_deg_le_5. Qed.
Print Assumptions C02_curve_derivs_are_the_true_derivatives_deg_le_5.

Theorem C02_curve_derivs_right_derivative_deg_le_5 : forall (U : list R) (P : list (list R)) (p dim : nat),
  sortedR U -> wf_net P dim -> (1 <= p <= 5)%nat -> (p < length P)%nat -> length U = (length P + p + 1)%nat ->
  forall s : nat, (p <= s < length P)%nat -> forall (order k d : nat) (u : R), (S k <= order)%nat -> (d < dim)%nat ->
  (knR U s <= u < knR U (s + 1))%R ->
  right_derivable_pt_lim (fun x => nth d (nth k (Derivs.curve_derivs Rops dim p U P x order) nil) 0%R) u
                         (nth d (nth (S k) (Derivs.curve_derivs Rops dim p U P u order) nil) 0%R).
Proof. exact curve_derivs_right_derivative_deg_le_5. Qed.
Print Assumptions C02_curve_derivs_right_derivative_deg_le_5.

(* the tangent vector really is the derivative of the evaluated point (model's curve_point of C01) *)
Theorem C02_curve_tangent_is_derivative_of_point_deg_le_5 : forall (U : list R) (P : list (list R)) (p dim : nat),
  sortedR U -> wf_net P dim -> (1 <= p <= 5)%nat -> (p < length P)%nat -> length U = (length P + p + 1)%nat ->
  forall s : nat, (p <= s < length P)%nat -> forall (order d : nat) (u : R), (1 <= order)%nat -> (d < dim)%nat ->
  (knR U s < u < knR U (s + 1))%R ->
  derivable_pt_lim (fun x => nth d (Eval.curve_point Rops dim p U P x) 0%R) u
                   (nth d (nth 1 (Derivs.curve_derivs Rops dim p U P u order) nil) 0%R).
Proof. exact curve_tangent_is_derivative_deg_le_5. Qed.
Print Assumptions C02_curve_tangent_is_derivative_of_point_deg_le_5.

(* ====================== GENERAL DEGREE (round 2, Proofs/DersGeneral*.v): the [B] degree <= 5 theorems above are now instances ====================== *)
(* [G] all degrees: A2.3 = Eq. 2.9 on the half-open span *)
Theorem C02_ders_is_eq29 : forall (U : list R) (span p : nat),
  sortedR U -> (p <= span)%nat -> (span + p < length U)%nat -> (span + 1 < length U)%nat ->
  forall (u : R) (order k r : nat), (knR U span <= u < knR U (span + 1))%R ->
  (order <= p)%nat -> (k <= order)%nat -> (r <= p)%nat ->
  nth r (nth k (basis_function_ders Rops p U span u order) []) 0%R = DerivAnalytic.dN (Ufun U) k p (span - p + r) u.
Proof. exact ders_general. Qed.
Print Assumptions C02_ders_is_eq29.

(* [G] all degrees, every real u (span fixed): A2.3 = derivatives of the polynomial piece of the span *)
Theorem C02_ders_is_piece_derivative : forall (U : list R) (span p : nat),
  sortedR U -> (p <= span)%nat -> (span + p < length U)%nat -> (span + 1 < length U)%nat ->
  forall (u : R) (order k r : nat), (order <= p)%nat -> (k <= order)%nat -> (r <= p)%nat ->
  nth r (nth k (basis_function_ders Rops p U span u order) []) 0%R = dNk (Ufun U) span k p (span - p + r) u.
Proof. exact ders_general_pieces. Qed.
Print Assumptions C02_ders_is_piece_derivative.

(* [G] replaces C02_ders_is_the_true_derivative_deg_le_5 *)
Theorem C02_ders_is_the_true_derivative : forall (U : list R) (span p order : nat),
  sortedR U -> (p <= span)%nat -> (span + p < length U)%nat -> (span + 1 < length U)%nat -> (order <= p)%nat ->
  forall k r : nat, (k <= order)%nat -> (r <= p)%nat ->
  kth_deriv_on (knR U span) (knR U (span + 1)) k (fun x => N (Ufun U) p (span - p + r) x)
               (fun x => nth r (nth k (basis_function_ders Rops p U span x order) nil) 0%R).
Proof. exact ders_is_true_derivative_general. Qed.
Print Assumptions C02_ders_is_the_true_derivative.

(* [G] every real u: row k+1 is the (two-sided) derivative of row k, the span being fixed *)
Theorem C02_ders_consecutive_rows : forall (U : list R) (span p order : nat),
  sortedR U -> (p <= span)%nat -> (span + p < length U)%nat -> (span + 1 < length U)%nat -> (order <= p)%nat ->
  forall (k r : nat) (u : R), (S k <= order)%nat -> (r <= p)%nat ->
  derivable_pt_lim (fun x => nth r (nth k (basis_function_ders Rops p U span x order) nil) 0%R) u
                   (nth r (nth (S k) (basis_function_ders Rops p U span u order) nil) 0%R).
Proof. exact ders_consecutive_rows_general. Qed.
Print Assumptions C02_ders_consecutive_rows.

(* [G] replaces C02_ders_right_derivative_at_knot_deg_le_5 (the hypothesis U_span < U_span+1 is not needed) *)
Theorem C02_ders_right_derivative_at_knot : forall (U : list R) (span p order : nat),
  sortedR U -> (p <= span)%nat -> (span + p < length U)%nat -> (span + 1 < length U)%nat -> (order <= p)%nat ->
  forall k r : nat, (S k <= order)%nat -> (r <= p)%nat ->
  right_derivable_pt_lim (fun x => nth r (nth k (basis_function_ders Rops p U span x order) nil) 0%R)
    (knR U span) (nth r (nth (S k) (basis_function_ders Rops p U span (knR U span) order) nil) 0%R).
Proof. exact ders_right_derivative_at_knot_general. Qed.
Print Assumptions C02_ders_right_derivative_at_knot.

(* [G] A2.3 = A2.5 ("all shipped derivative algorithms agree") *)
Theorem C02_ders_agrees_with_ders_one : forall (U : list R) (span p : nat) (u : R) (order k r : nat),
  sortedR U -> (p <= span)%nat -> (span + p + 1 < length U)%nat ->
  (knR U span <= u < knR U (span + 1))%R -> (order <= p)%nat -> (k <= order)%nat -> (r <= p)%nat ->
  nth r (nth k (basis_function_ders Rops p U span u order) []) 0%R
  = nth k (basis_function_ders_one Rops p U (span - p + r) u order) 0%R.
Proof. exact ders_agrees_with_ders_one. Qed.
Print Assumptions C02_ders_agrees_with_ders_one.

(* [G] curves, all degrees: replace the _deg_le_5 curve theorems *)
Theorem C02_curve_derivs_are_the_true_derivatives : forall (U : list R) (P : list (list R)) (p dim : nat),
  sortedR U -> wf_net P dim -> (p < length P)%nat -> length U = (length P + p + 1)%nat ->
  forall s : nat, (p <= s < length P)%nat -> forall order k d : nat, (k <= order)%nat -> (d < dim)%nat ->
  kth_deriv_on (knR U s) (knR U (s + 1)) k (fun x => curve_def U p P d x)
               (fun x => nth d (nth k (Derivs.curve_derivs Rops dim p U P x order) nil) 0%R).
Proof. exact curve_derivs_is_true_derivative_general. Qed.
Print Assumptions C02_curve_derivs_are_the_true_derivatives.

Theorem C02_curve_derivs_right_derivative : forall (U : list R) (P : list (list R)) (p dim : nat),
  sortedR U -> wf_net P dim -> (p < length P)%nat -> length U = (length P + p + 1)%nat ->
  forall s : nat, (p <= s < length P)%nat -> forall (order k d : nat) (u : R), (S k <= order)%nat -> (d < dim)%nat ->
  (knR U s <= u < knR U (s + 1))%R ->
  right_derivable_pt_lim (fun x => nth d (nth k (Derivs.curve_derivs Rops dim p U P x order) nil) 0%R) u
                         (nth d (nth (S k) (Derivs.curve_derivs Rops dim p U P u order) nil) 0%R).
Proof. exact curve_derivs_right_derivative_general. Qed.
Print Assumptions C02_curve_derivs_right_derivative.

Theorem C02_curve_tangent_is_derivative_of_point : forall (U : list R) (P : list (list R)) (p dim : nat),
  sortedR U -> wf_net P dim -> (p < length P)%nat -> length U = (length P + p + 1)%nat ->
  forall s : nat, (p <= s < length P)%nat -> forall (order d : nat) (u : R), (1 <= order)%nat -> (d < dim)%nat ->
  (knR U s < u < knR U (s + 1))%R ->
  derivable_pt_lim (fun x => nth d (Eval.curve_point Rops dim p U P x) 0%R) u
                   (nth d (nth 1 (Derivs.curve_derivs Rops dim p U P u order) nil) 0%R).
Proof. exact curve_tangent_is_derivative_general. Qed.
Print Assumptions C02_curve_tangent_is_derivative_of_point.

(* [G] the closed right end of the domain (u = U_n, evaluated with the last span): left derivatives *)
Theorem C02_curve_derivs_left_derivative_at_domain_end : forall (U : list R) (P : list (list R)) (p dim : nat),
  sortedR U -> wf_net P dim -> (p < length P)%nat -> length U = (length P + p + 1)%nat ->
  forall order k d : nat, (S k <= order)%nat -> (d < dim)%nat -> (knR U (length P - 1) < knR U (length P))%R ->
  left_derivable_pt_lim (fun x => nth d (nth k (Derivs.curve_derivs Rops dim p U P x order) nil) 0%R) (knR U (length P))
                        (nth d (nth (S k) (Derivs.curve_derivs Rops dim p U P (knR U (length P)) order) nil) 0%R).
Proof. exact curve_derivs_left_derivative_at_end. Qed.
Print Assumptions C02_curve_derivs_left_derivative_at_domain_end.

(* ====================== RATIONAL CURVES, SURFACES, RATIONAL SURFACES, TANGENT/NORMAL (round 2, Proofs/LeibnizRule.v, DerivRational.v, DerivSurface.v,
   DerivRationalSurface.v, DerivTangents.v, DerivGeneralInst.v): the returned derivative vectors are the true (mixed partial) derivatives ====================== *)

Import ListNotations.

(* ------------------------------------------------------------------------------------------------ pure analysis *)
(* [G] general Leibniz rule on an open interval: if a = w * c and (a_k), (w_k), (c_k) are the iterated derivatives, then
       a_k = sum_{i<=k} C(k,i) w_i c_{k-i} *)
Theorem C02_leibniz_rule : forall (lo hi : R) (n : nat) (a w c : nat -> R -> R),
  (forall k x, (k < n)%nat -> (lo < x < hi)%R -> derivable_pt_lim (a k) x (a (S k) x)) ->
  (forall k x, (k < n)%nat -> (lo < x < hi)%R -> derivable_pt_lim (w k) x (w (S k) x)) ->
  (forall k x, (k < n)%nat -> (lo < x < hi)%R -> derivable_pt_lim (c k) x (c (S k) x)) ->
  (forall x, (lo < x < hi)%R -> a 0%nat x = (w 0%nat x * c 0%nat x)%R) ->
  forall k, (k <= n)%nat -> forall x, (lo < x < hi)%R ->
    a k x = sumf (fun i => (INR (binom k i) * w i x * c (k - i)%nat x)%R) (S k).
Proof. exact leibniz_rule. Qed.
Print Assumptions C02_leibniz_rule.

(* [G] converse for quotients: a family (c_k) that satisfies the Leibniz recursion against the true derivative families of
       a and w (w nowhere zero) is the derivative family of a/w: this is what turns C02_rat_curve_derivs_leibniz into a
       statement about derivatives *)
Theorem C02_quotient_derivatives_unique : forall (lo hi : R) (n : nat) (a w c : nat -> R -> R),
  (forall k x, (k < n)%nat -> (lo < x < hi)%R -> derivable_pt_lim (a k) x (a (S k) x)) ->
  (forall k x, (k < n)%nat -> (lo < x < hi)%R -> derivable_pt_lim (w k) x (w (S k) x)) ->
  (forall x, (lo < x < hi)%R -> w 0%nat x <> 0%R) ->
  (forall k x, (k <= n)%nat -> (lo < x < hi)%R ->
     sumf (fun i => (INR (binom k i) * w i x * c (k - i)%nat x)%R) (S k) = a k x) ->
  forall k, (k <= n)%nat -> kth_deriv_on lo hi k (fun x => (a 0%nat x / w 0%nat x)%R) (c k).
Proof. exact quotient_kth_deriv_on. Qed.
Print Assumptions C02_quotient_derivatives_unique.

(* ------------------------------------------------------------------------------------------------ rational curves *)
(* [B: degrees 1..5; every sorted knot vector, every span of the domain, every order (also above the degree), positive weights]
   coordinate d of the k-th vector returned by A4.2 on the homogeneous net Pw is the k-th iterated analytic derivative of the
   NURBS curve coordinate A_d(x)/w(x) on the open span *)
Theorem C02_rat_curve_derivs_are_the_true_derivatives_deg_le_5 : forall (U : list R) (Pw : list (list R)) (p dim : nat),
  sortedR U -> wf_net Pw (S dim) -> (1 <= p <= 5)%nat -> (p < length Pw)%nat -> length U = (length Pw + p + 1)%nat ->
  (forall i, (i < length Pw)%nat -> (0 < coord Pw i dim)%R) ->
  forall order s : nat, (p <= s < length Pw)%nat -> forall k d : nat, (k <= order)%nat -> (d < dim)%nat ->
  kth_deriv_on (knR U s) (knR U (s + 1)) k
    (fun x => (curve_def U p Pw d x / curve_def U p Pw dim x)%R)
    (fun x => nth d (nth k (rat_curve_derivs Rops (curve_derivs Rops (S dim) p U Pw x order) order) []) 0%R).
Proof. exact rat_curve_derivs_are_true_derivatives_deg_le_5. Qed.
Print Assumptions C02_rat_curve_derivs_are_the_true_derivatives_deg_le_5.

(* right derivatives on the half-open span, in particular at the knot (the property's convention) *)
Theorem C02_rat_curve_derivs_right_derivative_deg_le_5 : forall (U : list R) (Pw : list (list R)) (p dim : nat),
  sortedR U -> wf_net Pw (S dim) -> (1 <= p <= 5)%nat -> (p < length Pw)%nat -> length U = (length Pw + p + 1)%nat ->
  (forall i, (i < length Pw)%nat -> (0 < coord Pw i dim)%R) ->
  forall order s : nat, (p <= s < length Pw)%nat -> forall (k d : nat) (u : R), (S k <= order)%nat -> (d < dim)%nat ->
  (knR U s <= u < knR U (s + 1))%R ->
  right_derivable_pt_lim (fun x => nth d (nth k (rat_curve_derivs Rops (curve_derivs Rops (S dim) p U Pw x order) order) []) 0%R) u
    (nth d (nth (S k) (rat_curve_derivs Rops (curve_derivs Rops (S dim) p U Pw u order) order) []) 0%R).
Proof. exact rat_curve_derivs_right_derivative_deg_le_5. Qed.
Print Assumptions C02_rat_curve_derivs_right_derivative_deg_le_5.

(* order 0 is the evaluated point of the NURBS curve (C01's obj_curve_point), and the tangent query returns its derivative *)
Theorem C02_rat_curve_order0_is_point_deg_le_5 : forall (U : list R) (Pw : list (list R)) (p dim : nat),
  sortedR U -> wf_net Pw (S dim) -> (1 <= p <= 5)%nat -> (p < length Pw)%nat -> length U = (length Pw + p + 1)%nat ->
  (forall i, (i < length Pw)%nat -> (0 < coord Pw i dim)%R) ->
  forall order s : nat, (p <= s < length Pw)%nat -> forall (d : nat) (x : R), (d < dim)%nat -> (knR U s <= x < knR U (s + 1))%R ->
  nth d (nth 0 (rat_curve_derivs Rops (curve_derivs Rops (S dim) p U Pw x order) order) []) 0%R
  = nth d (obj_curve_point Rops true dim p U Pw x) 0%R.
Proof. exact rat_curve_derivs_order0_is_point_deg_le_5. Qed.
Print Assumptions C02_rat_curve_order0_is_point_deg_le_5.

Theorem C02_rat_tangent_curve_is_derivative_of_point_deg_le_5 : forall (U : list R) (Pw : list (list R)) (p dim : nat),
  sortedR U -> wf_net Pw (S dim) -> (1 <= p <= 5)%nat -> (p < length Pw)%nat -> length U = (length Pw + p + 1)%nat ->
  (forall i, (i < length Pw)%nat -> (0 < coord Pw i dim)%R) ->
  forall s, (p <= s < length Pw)%nat -> forall normalize u pt T d,
  tangent_curve Rops normalize true false (S dim) p U Pw u = Ok (pt, T) -> (d < dim)%nat -> (knR U s < u < knR U (s + 1))%R ->
  derivable_pt_lim (fun x => nth d (obj_curve_point Rops true dim p U Pw x) 0%R) u (nth d T 0%R).
Proof. exact rat_tangent_curve_is_derivative_of_point_deg_le_5. Qed.
Print Assumptions C02_rat_tangent_curve_is_derivative_of_point_deg_le_5.

(* ------------------------------------------------------------------------------------------------ surfaces *)
(* [B: degrees 1..5 per direction; every order, all k, l <= order incl. above the degrees] A3.6: SKL[k][l] is the tensor product
   of the Eq. 2.9 derivatives, sum over the whole net *)
Theorem C02_surface_derivs_is_eq29_tensor_deg_le_5 : forall (Uu Uv : list R) (P : list (list R)) (pu pv su sv dim : nat),
  sortedR Uu -> sortedR Uv -> wf_net P dim -> length P = (su * sv)%nat -> (1 <= pu <= 5)%nat -> (1 <= pv <= 5)%nat ->
  (pu < su)%nat -> (pv < sv)%nat -> length Uu = (su + pu + 1)%nat -> length Uv = (sv + pv + 1)%nat ->
  forall (u v : R) (order k l : nat), (knR Uu pu <= u < knR Uu su)%R -> (knR Uv pv <= v < knR Uv sv)%R ->
  (k <= order)%nat -> (l <= order)%nat ->
  length (get3 (surface_derivs Rops dim pu pv Uu Uv su sv P u v order) k l) = dim /\
  forall d, (d < dim)%nat ->
    nth d (get3 (surface_derivs Rops dim pu pv Uu Uv su sv P u v order) k l) 0%R
    = sumf (fun i => sumf (fun j => (DerivAnalytic.dN (Ufun Uu) k pu i u * DerivAnalytic.dN (Ufun Uv) l pv j v
                                      * coord P (j + sv * i) d)%R) sv) su.
Proof. exact surface_derivs_is_dN_tensor_deg_le_5. Qed.
Print Assumptions C02_surface_derivs_is_eq29_tensor_deg_le_5.

(* the mixed partials: k derivations in u of the surface (v fixed) give SKL[k][0], then l derivations in v (u fixed) give SKL[k][l] *)
Theorem C02_surface_derivs_are_the_mixed_partials_deg_le_5 : forall (Uu Uv : list R) (P : list (list R)) (pu pv su sv dim : nat),
  sortedR Uu -> sortedR Uv -> wf_net P dim -> length P = (su * sv)%nat -> (1 <= pu <= 5)%nat -> (1 <= pv <= 5)%nat ->
  (pu < su)%nat -> (pv < sv)%nat -> length Uu = (su + pu + 1)%nat -> length Uv = (sv + pv + 1)%nat ->
  forall tu tv : nat, (pu <= tu < su)%nat -> (pv <= tv < sv)%nat ->
  forall order k l d : nat, (k <= order)%nat -> (l <= order)%nat -> (d < dim)%nat ->
  (forall v, (knR Uv pv <= v < knR Uv sv)%R ->
     kth_deriv_on (knR Uu tu) (knR Uu (tu + 1)) k (fun x => surface_def Uu Uv pu pv su sv P d x v)
       (fun x => nth d (get3 (surface_derivs Rops dim pu pv Uu Uv su sv P x v order) k 0) 0%R)) /\
  (forall u, (knR Uu pu <= u < knR Uu su)%R ->
     kth_deriv_on (knR Uv tv) (knR Uv (tv + 1)) l
       (fun y => nth d (get3 (surface_derivs Rops dim pu pv Uu Uv su sv P u y order) k 0) 0%R)
       (fun y => nth d (get3 (surface_derivs Rops dim pu pv Uu Uv su sv P u y order) k l) 0%R)).
Proof. exact surface_derivs_are_mixed_partials_deg_le_5. Qed.
Print Assumptions C02_surface_derivs_are_the_mixed_partials_deg_le_5.

(* every entry: d/du SKL[k][l] = SKL[k+1][l] and d/dv SKL[k][l] = SKL[k][l+1] (so the order of derivation does not matter) *)
Theorem C02_surface_derivs_partial_u_deg_le_5 : forall (Uu Uv : list R) (P : list (list R)) (pu pv su sv dim : nat),
  sortedR Uu -> sortedR Uv -> wf_net P dim -> length P = (su * sv)%nat -> (1 <= pu <= 5)%nat -> (1 <= pv <= 5)%nat ->
  (pu < su)%nat -> (pv < sv)%nat -> length Uu = (su + pu + 1)%nat -> length Uv = (sv + pv + 1)%nat ->
  forall tu : nat, (pu <= tu < su)%nat -> forall (order k l d : nat) (u v : R),
  (S k <= order)%nat -> (l <= order)%nat -> (d < dim)%nat -> (knR Uu tu < u < knR Uu (tu + 1))%R -> (knR Uv pv <= v < knR Uv sv)%R ->
  derivable_pt_lim (fun x => nth d (get3 (surface_derivs Rops dim pu pv Uu Uv su sv P x v order) k l) 0%R) u
                   (nth d (get3 (surface_derivs Rops dim pu pv Uu Uv su sv P u v order) (S k) l) 0%R).
Proof. exact surface_derivs_partial_u_deg_le_5. Qed.
Print Assumptions C02_surface_derivs_partial_u_deg_le_5.

Theorem C02_surface_derivs_partial_v_deg_le_5 : forall (Uu Uv : list R) (P : list (list R)) (pu pv su sv dim : nat),
  sortedR Uu -> sortedR Uv -> wf_net P dim -> length P = (su * sv)%nat -> (1 <= pu <= 5)%nat -> (1 <= pv <= 5)%nat ->
  (pu < su)%nat -> (pv < sv)%nat -> length Uu = (su + pu + 1)%nat -> length Uv = (sv + pv + 1)%nat ->
  forall tv : nat, (pv <= tv < sv)%nat -> forall (order k l d : nat) (u v : R),
  (k <= order)%nat -> (S l <= order)%nat -> (d < dim)%nat -> (knR Uu pu <= u < knR Uu su)%R -> (knR Uv tv < v < knR Uv (tv + 1))%R ->
  derivable_pt_lim (fun y => nth d (get3 (surface_derivs Rops dim pu pv Uu Uv su sv P u y order) k l) 0%R) v
                   (nth d (get3 (surface_derivs Rops dim pu pv Uu Uv su sv P u v order) k (S l)) 0%R).
Proof. exact surface_derivs_partial_v_deg_le_5. Qed.
Print Assumptions C02_surface_derivs_partial_v_deg_le_5.

(* right derivatives at knots *)
Theorem C02_surface_derivs_partial_u_right_deg_le_5 : forall (Uu Uv : list R) (P : list (list R)) (pu pv su sv dim : nat),
  sortedR Uu -> sortedR Uv -> wf_net P dim -> length P = (su * sv)%nat -> (1 <= pu <= 5)%nat -> (1 <= pv <= 5)%nat ->
  (pu < su)%nat -> (pv < sv)%nat -> length Uu = (su + pu + 1)%nat -> length Uv = (sv + pv + 1)%nat ->
  forall tu : nat, (pu <= tu < su)%nat -> forall (order k l d : nat) (u v : R),
  (S k <= order)%nat -> (l <= order)%nat -> (d < dim)%nat -> (knR Uu tu <= u < knR Uu (tu + 1))%R -> (knR Uv pv <= v < knR Uv sv)%R ->
  right_derivable_pt_lim (fun x => nth d (get3 (surface_derivs Rops dim pu pv Uu Uv su sv P x v order) k l) 0%R) u
                         (nth d (get3 (surface_derivs Rops dim pu pv Uu Uv su sv P u v order) (S k) l) 0%R).
Proof. exact surface_derivs_partial_u_right_deg_le_5. Qed.
Print Assumptions C02_surface_derivs_partial_u_right_deg_le_5.

(* ------------------------------------------------------------------------------------------------ rational surfaces *)
(* [G] A4.4, EVERY order, every entry of the square, every coordinate c: the two-variable Leibniz identity
       (replaces C02_rat_surface_derivs_leibniz_order_le_3_partial) *)
Theorem C02_rat_surface_derivs_leibniz : forall (SKLw : list (list (list R))) (d order c : nat), (c < d)%nat ->
  (forall k l, (k <= order)%nat -> (l <= order)%nat -> length (get3 SKLw k l) = S d) ->
  vlast Rops (get3 SKLw 0 0) <> 0%R ->
  let SK := rat_surface_derivs Rops (S d) SKLw order in
  forall k l, (k <= order)%nat -> (l <= order)%nat ->
    length (get3 SK k l) = d /\
    leibniz2 (fun i j => vlast Rops (get3 SKLw i j)) (fun k l => nth c (get3 SK k l) 0%R) k l
    = nth c (removelast (get3 SKLw k l)) 0%R.
Proof. exact rat_surface_derivs_leibniz_gen. Qed.
Print Assumptions C02_rat_surface_derivs_leibniz.

(* [G] all degrees: positive weights give a positive weight function on the whole domain (denominator of the NURBS surface) *)
Theorem C02_surface_weight_function_positive : forall (Uu Uv : list R) (Pw : list (list R)) (pu pv su sv dim : nat) (u v : R),
  sortedR Uu -> sortedR Uv -> (pu < su)%nat -> (pv < sv)%nat -> length Uu = (su + pu + 1)%nat -> length Uv = (sv + pv + 1)%nat ->
  (knR Uu pu <= u < knR Uu su)%R -> (knR Uv pv <= v < knR Uv sv)%R ->
  (forall i, (i < su * sv)%nat -> (0 < coord Pw i dim)%R) -> (0 < surface_def Uu Uv pu pv su sv Pw dim u v)%R.
Proof. exact surface_weight_function_positive. Qed.
Print Assumptions C02_surface_weight_function_positive.

(* [B: degrees 1..5 per direction; every order; positive weights] the (k,l) entry returned by A4.4 is the (k,l) mixed partial of the
   NURBS surface coordinate A_d/w *)
Theorem C02_rat_surface_derivs_are_the_mixed_partials_deg_le_5 : forall (Uu Uv : list R) (Pw : list (list R)) (pu pv su sv dim : nat),
  sortedR Uu -> sortedR Uv -> wf_net Pw (S dim) -> length Pw = (su * sv)%nat -> (1 <= pu <= 5)%nat -> (1 <= pv <= 5)%nat ->
  (pu < su)%nat -> (pv < sv)%nat -> length Uu = (su + pu + 1)%nat -> length Uv = (sv + pv + 1)%nat ->
  (forall i, (i < su * sv)%nat -> (0 < coord Pw i dim)%R) ->
  forall order tu tv : nat, (pu <= tu < su)%nat -> (pv <= tv < sv)%nat ->
  forall k l d : nat, (k <= order)%nat -> (l <= order)%nat -> (d < dim)%nat ->
  (forall v, (knR Uv pv <= v < knR Uv sv)%R ->
     kth_deriv_on (knR Uu tu) (knR Uu (tu + 1)) k
       (fun x => (surface_def Uu Uv pu pv su sv Pw d x v / surface_def Uu Uv pu pv su sv Pw dim x v)%R)
       (fun x => nth d (get3 (rat_surface_derivs Rops (S dim) (surface_derivs Rops (S dim) pu pv Uu Uv su sv Pw x v order) order) k 0) 0%R)) /\
  (forall u, (knR Uu pu <= u < knR Uu su)%R ->
     kth_deriv_on (knR Uv tv) (knR Uv (tv + 1)) l
       (fun y => nth d (get3 (rat_surface_derivs Rops (S dim) (surface_derivs Rops (S dim) pu pv Uu Uv su sv Pw u y order) order) k 0) 0%R)
       (fun y => nth d (get3 (rat_surface_derivs Rops (S dim) (surface_derivs Rops (S dim) pu pv Uu Uv su sv Pw u y order) order) k l) 0%R)).
Proof. exact rat_surface_derivs_are_mixed_partials_deg_le_5. Qed.
Print Assumptions C02_rat_surface_derivs_are_the_mixed_partials_deg_le_5.

Theorem C02_rat_surface_derivs_partial_u_deg_le_5 : forall (Uu Uv : list R) (Pw : list (list R)) (pu pv su sv dim : nat),
  sortedR Uu -> sortedR Uv -> wf_net Pw (S dim) -> length Pw = (su * sv)%nat -> (1 <= pu <= 5)%nat -> (1 <= pv <= 5)%nat ->
  (pu < su)%nat -> (pv < sv)%nat -> length Uu = (su + pu + 1)%nat -> length Uv = (sv + pv + 1)%nat ->
  (forall i, (i < su * sv)%nat -> (0 < coord Pw i dim)%R) ->
  forall order tu : nat, (pu <= tu < su)%nat -> forall (k l d : nat) (u v : R),
  (S k <= order)%nat -> (l <= order)%nat -> (d < dim)%nat -> (knR Uu tu < u < knR Uu (tu + 1))%R -> (knR Uv pv <= v < knR Uv sv)%R ->
  derivable_pt_lim
    (fun x => nth d (get3 (rat_surface_derivs Rops (S dim) (surface_derivs Rops (S dim) pu pv Uu Uv su sv Pw x v order) order) k l) 0%R) u
    (nth d (get3 (rat_surface_derivs Rops (S dim) (surface_derivs Rops (S dim) pu pv Uu Uv su sv Pw u v order) order) (S k) l) 0%R).
Proof. exact rat_surface_derivs_partial_u_deg_le_5. Qed.
Print Assumptions C02_rat_surface_derivs_partial_u_deg_le_5.

Theorem C02_rat_surface_derivs_partial_v_deg_le_5 : forall (Uu Uv : list R) (Pw : list (list R)) (pu pv su sv dim : nat),
  sortedR Uu -> sortedR Uv -> wf_net Pw (S dim) -> length Pw = (su * sv)%nat -> (1 <= pu <= 5)%nat -> (1 <= pv <= 5)%nat ->
  (pu < su)%nat -> (pv < sv)%nat -> length Uu = (su + pu + 1)%nat -> length Uv = (sv + pv + 1)%nat ->
  (forall i, (i < su * sv)%nat -> (0 < coord Pw i dim)%R) ->
  forall order tv : nat, (pv <= tv < sv)%nat -> forall (k l d : nat) (u v : R),
  (k <= order)%nat -> (S l <= order)%nat -> (d < dim)%nat -> (knR Uu pu <= u < knR Uu su)%R -> (knR Uv tv < v < knR Uv (tv + 1))%R ->
  derivable_pt_lim
    (fun y => nth d (get3 (rat_surface_derivs Rops (S dim) (surface_derivs Rops (S dim) pu pv Uu Uv su sv Pw u y order) order) k l) 0%R) v
    (nth d (get3 (rat_surface_derivs Rops (S dim) (surface_derivs Rops (S dim) pu pv Uu Uv su sv Pw u v order) order) k (S l)) 0%R).
Proof. exact rat_surface_derivs_partial_v_deg_le_5. Qed.
Print Assumptions C02_rat_surface_derivs_partial_v_deg_le_5.

(* ------------------------------------------------------------------------------------------------ tangent / normal queries *)
(* the normal returned by operations.normal is the cross product of the TRUE partial-derivative vectors of the evaluated point,
   B-spline (rational = false) or NURBS (rational = true) *)
Theorem C02_normal_is_cross_of_true_partials_deg_le_5 : forall (Uu Uv : list R) (pu pv su sv : nat),
  sortedR Uu -> sortedR Uv -> (1 <= pu <= 5)%nat -> (1 <= pv <= 5)%nat -> (pu < su)%nat -> (pv < sv)%nat ->
  length Uu = (su + pu + 1)%nat -> length Uv = (sv + pv + 1)%nat ->
  forall tu tv : nat, (pu <= tu < su)%nat -> (pv <= tv < sv)%nat ->
  forall (rational : bool) (Pw : list (list R)) (dim : nat),
  let D := if rational then S dim else dim in
  wf_net Pw D -> length Pw = (su * sv)%nat -> (rational = true -> forall i, (i < su * sv)%nat -> (0 < coord Pw i dim)%R) ->
  forall normalize u v pt nv,
  normal_surface Rops normalize rational false D pu pv Uu Uv su sv Pw u v = Ok (pt, nv) ->
  (knR Uu tu < u < knR Uu (tu + 1))%R -> (knR Uv tv < v < knR Uv (tv + 1))%R ->
  exists Su Sv, nv = cross Rops Su Sv /\ forall d, (d < dim)%nat ->
    derivable_pt_lim (fun x => nth d (obj_surface_point Rops rational dim pu pv Uu Uv su sv Pw (x, v)) 0%R) u (nth d Su 0%R) /\
    derivable_pt_lim (fun y => nth d (obj_surface_point Rops rational dim pu pv Uu Uv su sv Pw (u, y)) 0%R) v (nth d Sv 0%R).
Proof. exact normal_surface_is_cross_of_true_partials_deg_le_5. Qed.
Print Assumptions C02_normal_is_cross_of_true_partials_deg_le_5.

(* ------------------------------------------------------------------------------------------------ all degrees *)
(* [G: ALL degrees] the same three main theorems with the general-degree link DersGeneral.ders_general (needs Proofs/DersGeneral.v in
   the closure) *)
Theorem C02_rat_curve_derivs_are_the_true_derivatives : forall (U : list R) (Pw : list (list R)) (p dim : nat),
  sortedR U -> wf_net Pw (S dim) -> (p < length Pw)%nat -> length U = (length Pw + p + 1)%nat ->
  (forall i, (i < length Pw)%nat -> (0 < coord Pw i dim)%R) ->
  forall order s : nat, (p <= s < length Pw)%nat -> forall k d : nat, (k <= order)%nat -> (d < dim)%nat ->
  kth_deriv_on (knR U s) (knR U (s + 1)) k
    (fun x => (curve_def U p Pw d x / curve_def U p Pw dim x)%R)
    (fun x => nth d (nth k (rat_curve_derivs Rops (curve_derivs Rops (S dim) p U Pw x order) order) []) 0%R).
Proof. exact rat_curve_derivs_are_true_derivatives_general. Qed.
Print Assumptions C02_rat_curve_derivs_are_the_true_derivatives.

Theorem C02_surface_derivs_are_the_mixed_partials : forall (Uu Uv : list R) (P : list (list R)) (pu pv su sv dim : nat),
  sortedR Uu -> sortedR Uv -> wf_net P dim -> length P = (su * sv)%nat ->
  (pu < su)%nat -> (pv < sv)%nat -> length Uu = (su + pu + 1)%nat -> length Uv = (sv + pv + 1)%nat ->
  forall tu tv : nat, (pu <= tu < su)%nat -> (pv <= tv < sv)%nat ->
  forall order k l d : nat, (k <= order)%nat -> (l <= order)%nat -> (d < dim)%nat ->
  (forall v, (knR Uv pv <= v < knR Uv sv)%R ->
     kth_deriv_on (knR Uu tu) (knR Uu (tu + 1)) k (fun x => surface_def Uu Uv pu pv su sv P d x v)
       (fun x => nth d (get3 (surface_derivs Rops dim pu pv Uu Uv su sv P x v order) k 0) 0%R)) /\
  (forall u, (knR Uu pu <= u < knR Uu su)%R ->
     kth_deriv_on (knR Uv tv) (knR Uv (tv + 1)) l
       (fun y => nth d (get3 (surface_derivs Rops dim pu pv Uu Uv su sv P u y order) k 0) 0%R)
       (fun y => nth d (get3 (surface_derivs Rops dim pu pv Uu Uv su sv P u y order) k l) 0%R)).
Proof. exact surface_derivs_are_mixed_partials_general. Qed.
Print Assumptions C02_surface_derivs_are_the_mixed_partials.

Theorem C02_rat_surface_derivs_are_the_mixed_partials : forall (Uu Uv : list R) (Pw : list (list R)) (pu pv su sv dim : nat),
  sortedR Uu -> sortedR Uv -> wf_net Pw (S dim) -> length Pw = (su * sv)%nat ->
  (pu < su)%nat -> (pv < sv)%nat -> length Uu = (su + pu + 1)%nat -> length Uv = (sv + pv + 1)%nat ->
  (forall i, (i < su * sv)%nat -> (0 < coord Pw i dim)%R) ->
  forall order tu tv : nat, (pu <= tu < su)%nat -> (pv <= tv < sv)%nat ->
  forall k l d : nat, (k <= order)%nat -> (l <= order)%nat -> (d < dim)%nat ->
  (forall v, (knR Uv pv <= v < knR Uv sv)%R ->
     kth_deriv_on (knR Uu tu) (knR Uu (tu + 1)) k
       (fun x => (surface_def Uu Uv pu pv su sv Pw d x v / surface_def Uu Uv pu pv su sv Pw dim x v)%R)
       (fun x => nth d (get3 (rat_surface_derivs Rops (S dim) (surface_derivs Rops (S dim) pu pv Uu Uv su sv Pw x v order) order) k 0) 0%R)) /\
  (forall u, (knR Uu pu <= u < knR Uu su)%R ->
     kth_deriv_on (knR Uv tv) (knR Uv (tv + 1)) l
       (fun y => nth d (get3 (rat_surface_derivs Rops (S dim) (surface_derivs Rops (S dim) pu pv Uu Uv su sv Pw u y order) order) k 0) 0%R)
       (fun y => nth d (get3 (rat_surface_derivs Rops (S dim) (surface_derivs Rops (S dim) pu pv Uu Uv su sv Pw u y order) order) k l) 0%R)).
Proof. exact rat_surface_derivs_are_mixed_partials_general. Qed.
Print Assumptions C02_rat_surface_derivs_are_the_mixed_partials.

(* ====================== both evaluator families agree for all degrees (round 2, Proofs/DerivsAgreeGeneral*.v) ====================== *)
(* ===================== for Props/C02.v ===================== *)
(* [G] Eq. 3.8, specification level: derivative control points, all degrees, all orders k <= p *)
Theorem C02_deriv_cpts_represent_kth_derivative : forall U : nat -> R, (forall i, U i <= U (S i)) ->
  forall (p k s n : nat) (P : nat -> R) (u : R), (k <= p)%nat -> (p <= s < n)%nat -> U s <= u < U (S s) ->
  sumf (fun i => DerivAnalytic.dN U k p i u * P i) n = sumf (fun i => N U (p - k) (i + k) u * PK U p P k i) (n - k).
Proof. exact deriv_cpts_full_range. Qed.
Print Assumptions C02_deriv_cpts_represent_kth_derivative.

(* [G] A3.3 computes PK *)
Theorem C02_curve_deriv_cpts_is_PK : forall (p : nat) (kv : list R) (cpts : list (list R)) (r1 r2 order dim k i : nat),
  (r1 + (r2 - r1) + p < length kv)%nat -> (forall i, (i <= r2 - r1)%nat -> length (nth (r1 + i) cpts []) = dim) ->
  (k <= order)%nat -> (i + k <= r2 - r1)%nat ->
  let e := nth i (nth k (curve_deriv_cpts Rops p kv cpts r1 r2 order) []) [] in
  length e = dim /\ forall d, (d < dim)%nat -> nth d e 0 = PK (Ufun kv) p (fun m => coord cpts m d) k (r1 + i).
Proof. exact curve_deriv_cpts_is_PK. Qed.
Print Assumptions C02_curve_deriv_cpts_is_PK.

(* [G] replaces C02_evaluator_families_agree_degree3_partial *)
Theorem C02_evaluator_families_agree : forall (U : list R) (P : list (list R)) (p dim : nat),
  sortedR U -> wf_net P dim -> (p < length P)%nat -> length U = (length P + p + 1)%nat ->
  forall (u : R) (order : nat),
  curve_derivs2 Rops dim p U P u order = curve_derivs Rops dim p U P u order.
Proof. exact curve_derivs2_eq_curve_derivs. Qed.
Print Assumptions C02_evaluator_families_agree.

(* [G] the alternative curve evaluator returns the Eq. 2.9 sums = the true derivatives (DersGeneralCurve.v) *)
Theorem C02_curve_derivs2_is_eq29_sum : forall (U : list R) (P : list (list R)) (p dim : nat),
  sortedR U -> wf_net P dim -> (p < length P)%nat -> length U = (length P + p + 1)%nat ->
  forall (u : R) (order k : nat), knR U p <= u < knR U (length P) -> (k <= order)%nat ->
  let CK := curve_derivs2 Rops dim p U P u order in
  length (nth k CK []) = dim /\ forall d, (d < dim)%nat -> nth d (nth k CK []) 0 = curve_dk U p P k d u.
Proof. exact curve_derivs2_is_dN_sum_general. Qed.
Print Assumptions C02_curve_derivs2_is_eq29_sum.

(* [G] replaces C02_surface_evaluator_families_agree_degree22_partial *)
Theorem C02_surface_evaluator_families_agree : forall (Uu Uv : list R) (P : list (list R)) (pu pv su sv dim : nat),
  sortedR Uu -> sortedR Uv -> wf_net P dim -> length P = (su * sv)%nat -> (pu < su)%nat -> (pv < sv)%nat ->
  length Uu = (su + pu + 1)%nat -> length Uv = (sv + pv + 1)%nat ->
  forall (u v : R) (order : nat),
  surface_derivs2 Rops dim pu pv Uu Uv su sv P u v order
  = map (fun k => map (fun l => if Nat.leb (k + l) order
                                then get3 (surface_derivs Rops dim pu pv Uu Uv su sv P u v order) k l
                                else vzero Rops dim) (seq 0 (S order))) (seq 0 (S order)).
Proof. exact surface_derivs2_is_triangle_of_surface_derivs. Qed.
Print Assumptions C02_surface_evaluator_families_agree.

Theorem C02_surface_derivs2_is_eq29_tensor : forall (Uu Uv : list R) (P : list (list R)) (pu pv su sv dim : nat),
  sortedR Uu -> sortedR Uv -> wf_net P dim -> length P = (su * sv)%nat -> (pu < su)%nat -> (pv < sv)%nat ->
  length Uu = (su + pu + 1)%nat -> length Uv = (sv + pv + 1)%nat ->
  forall (u v : R) (order k l : nat), knR Uu pu <= u < knR Uu su -> knR Uv pv <= v < knR Uv sv -> (k + l <= order)%nat ->
  length (get3 (surface_derivs2 Rops dim pu pv Uu Uv su sv P u v order) k l) = dim /\
  forall d, (d < dim)%nat ->
    nth d (get3 (surface_derivs2 Rops dim pu pv Uu Uv su sv P u v order) k l) 0 = surface_dkl Uu Uv pu pv su sv P k l d u v.
Proof. exact surface_derivs2_is_dN_tensor_general. Qed.
Print Assumptions C02_surface_derivs2_is_eq29_tensor.

(* non-vacuity *)
Example C02_agree_hypotheses_satisfiable :
  let U := [0;0;0;1/2;1;1;1] in let P := [[0;0];[1;2];[3;1];[4;0]] in
  sortedR U /\ wf_net P 2 /\ (2 < length P)%nat /\ length U = (length P + 2 + 1)%nat /\
  curve_derivs2 Rops 2 2 U P (3/4) 3 = curve_derivs Rops 2 2 U P (3/4) 3.
Proof.
  cbv zeta.
  assert (Hs : sortedR [0;0;0;1/2;1;1;1]).
  { intros i j [Hij Hj]. cbn in Hj. unfold kn. cbn [o0 Rops].
    do 7 (destruct i as [|i]; [do 7 (destruct j as [|j]; [try lia; cbn; lra|]); lia|]). lia. }
  assert (Hw : wf_net [[0;0];[1;2];[3;1];[4;0]] 2).
  { intros i Hi. cbn in Hi. do 4 (destruct i as [|i]; [reflexivity|]). lia. }
  repeat split; try assumption; try (cbn; lia).
  apply curve_derivs2_eq_curve_derivs; try assumption; cbn; lia.
Qed.



Open Scope R_scope.

(* ====================== the hodograph OBJECTS (Proofs/HodographObj.v): operations.derivative_curve / derivative_surface ======================
   "... the derivative (hodograph) curve and surface constructors ... agree with these values."
   Model.Derivs.derivative_curve / derivative_surface (as repaired by fixes/C02-hodograph-keep-parametrization.diff) return the data the
   constructors put into the new objects; the theorems evaluate those objects with the model's own point evaluation (Model.Eval).
   The guards 2 <= p / derivative_surface_code_returns delimit the inputs on which the real code returns (known findings
   hodograph-curve-degree-1, hodograph-surface-degree-1, hodograph-surface-multiple-knot); the underlying lemmas of HodographObj.v hold
   from degree 1 on and without the multiplicity guard (x/0 = 0 at the real-number instance, and the second-level control points
   whose zero denominators make the code raise are not used by the returned nets). *)

(* [G] every degree p >= 2, sorted knot vector (any multiplicities), well-formed control polygon: the returned triple is a valid curve
   of degree p-1 on the knot vector U[1:-1] (sorted, (n-1)+(p-1)+1 knots, knot m = knot m+1 of U) with n-1 control points *)
Theorem C02_derivative_curve_is_valid_curve : forall (U : list R) (P : list (list R)) (p dim : nat),
  sortedR U -> wf_net P dim -> (2 <= p)%nat -> (p < length P)%nat -> length U = (length P + p + 1)%nat ->
  forall p' U' Q, derivative_curve Rops p U P = (p', U', Q) ->
  p' = (p - 1)%nat /\ U' = trim_kv U /\ length Q = (length P - 1)%nat /\ wf_net Q dim /\ sortedR U' /\
  length U' = (length Q + p' + 1)%nat /\ (p' < length Q)%nat /\
  (forall m, (m < length U')%nat -> knR U' m = knR U (S m)).
Proof. intros U P p dim Hs Hw Hp. apply derivative_curve_object_valid; try assumption; lia. Qed.
Print Assumptions C02_derivative_curve_is_valid_curve.

(* [G] the point of the hodograph object at every u of the half-open domain [U_p, U_n) IS the first-derivative vector that
   CurveEvaluator.derivatives returns for the input curve at u (any requested order >= 1) = sum_i N'_{i,p}(u) P_i (Eq. 2.9), and so is
   its Cox-de Boor sum (curve_def of C01) *)
Theorem C02_derivative_curve_evaluates_to_first_derivative : forall (U : list R) (P : list (list R)) (p dim : nat),
  sortedR U -> wf_net P dim -> (2 <= p)%nat -> (p < length P)%nat -> length U = (length P + p + 1)%nat ->
  forall p' U' Q, derivative_curve Rops p U P = (p', U', Q) ->
  forall u, knR U p <= u < knR U (length P) ->
  (forall order, (1 <= order)%nat -> curve_point Rops dim p' U' Q u = nth 1 (curve_derivs Rops dim p U P u order) []) /\
  length (curve_point Rops dim p' U' Q u) = dim /\
  (forall d, (d < dim)%nat -> nth d (curve_point Rops dim p' U' Q u) 0 = curve_dk U p P 1 d u) /\
  (forall d, curve_def U' p' Q d u = curve_dk U p P 1 d u).
Proof. intros U P p dim Hs Hw Hp. apply derivative_curve_object_value; try assumption; lia. Qed.
Print Assumptions C02_derivative_curve_evaluates_to_first_derivative.

(* [G] analytically: inside every knot span of the domain the hodograph point is the limit-based derivative of every coordinate of the
   input curve (Cox-de Boor sum, and evaluated point); on the half-open span - in particular at knots - the right derivative *)
Theorem C02_derivative_curve_is_the_true_derivative : forall (U : list R) (P : list (list R)) (p dim : nat),
  sortedR U -> wf_net P dim -> (2 <= p)%nat -> (p < length P)%nat -> length U = (length P + p + 1)%nat ->
  forall p' U' Q, derivative_curve Rops p U P = (p', U', Q) ->
  forall s d, (p <= s < length P)%nat -> (d < dim)%nat ->
  (forall u, knR U s < u < knR U (s + 1) ->
     derivable_pt_lim (fun x => curve_def U p P d x) u (nth d (curve_point Rops dim p' U' Q u) 0) /\
     derivable_pt_lim (fun x => nth d (curve_point Rops dim p U P x) 0) u (nth d (curve_point Rops dim p' U' Q u) 0)) /\
  (forall u, knR U s <= u < knR U (s + 1) ->
     right_derivable_pt_lim (fun x => curve_def U p P d x) u (nth d (curve_point Rops dim p' U' Q u) 0) /\
     right_derivable_pt_lim (fun x => nth d (curve_point Rops dim p U P x) 0) u (nth d (curve_point Rops dim p' U' Q u) 0)).
Proof. intros U P p dim Hs Hw Hp. apply derivative_curve_object_true_derivative; try assumption; lia. Qed.
Print Assumptions C02_derivative_curve_is_the_true_derivative.

(* the guard (= harness second_level_zero negated, degrees >= 2) excludes every zero denominator of A3.3/A3.7 called with order 2 *)
Theorem C02_hodograph_surface_guard_means_no_zero_denominator : forall (p : nat) (U : list R) (n : nat),
  sortedR U -> (2 <= p)%nat -> (p < n)%nat -> length U = (n + p + 1)%nat -> second_level_nonzero p U n ->
  forall k i, (1 <= k <= 2)%nat -> (i + k <= n - 1)%nat -> knR U (i + p + 1) - knR U (i + k) <> 0.
Proof. exact guard_no_zero_denominator. Qed.
Print Assumptions C02_hodograph_surface_guard_means_no_zero_denominator.

(* [G] surfaces, bi-degree >= (2,2), no interior knot of multiplicity = degree (derivative_surface_code_returns): the three returned
   nets have (su-1) x sv, su x (sv-1), (su-1) x (sv-1) points of the input dimension; the trimmed knot vectors are valid *)
Theorem C02_derivative_surface_nets_valid : forall (Uu Uv : list R) (P : list (list R)) (pu pv su sv dim : nat),
  sortedR Uu -> sortedR Uv -> wf_net P dim -> length P = (su * sv)%nat -> derivative_surface_code_returns pu pv Uu Uv su sv ->
  (pu < su)%nat -> (pv < sv)%nat -> length Uu = (su + pu + 1)%nat -> length Uv = (sv + pv + 1)%nat ->
  forall Su Sv Suv, derivative_surface Rops pu pv Uu Uv su sv P = (Su, Sv, Suv) ->
  (length Su = ((su - 1) * sv)%nat /\ wf_net Su dim) /\ (length Sv = (su * (sv - 1))%nat /\ wf_net Sv dim) /\
  (length Suv = ((su - 1) * (sv - 1))%nat /\ wf_net Suv dim) /\
  sortedR (trim_kv Uu) /\ length (trim_kv Uu) = ((su - 1) + (pu - 1) + 1)%nat /\
  sortedR (trim_kv Uv) /\ length (trim_kv Uv) = ((sv - 1) + (pv - 1) + 1)%nat.
Proof. intros Uu Uv P pu pv su sv dim H1 H2 H3 H4 (G1 & G2 & _). apply derivative_surface_valid; try assumption; lia. Qed.
Print Assumptions C02_derivative_surface_nets_valid.

(* [G] Su_point / Sv_point / Suv_point = Model.Eval.surface_point of the three objects (degrees (pu-1,pv), (pu,pv-1), (pu-1,pv-1), knot vectors
   (Uu[1:-1],Uv), (Uu,Uv[1:-1]), (Uu[1:-1],Uv[1:-1])): on the half-open domain they are the entries [1][0], [0][1], [1][1] of
   SurfaceEvaluator.derivatives of the input surface = the Eq. 2.9 tensor sums surface_dkl *)
Theorem C02_derivative_surface_evaluates_to_partials : forall (Uu Uv : list R) (P : list (list R)) (pu pv su sv dim : nat),
  sortedR Uu -> sortedR Uv -> wf_net P dim -> length P = (su * sv)%nat -> derivative_surface_code_returns pu pv Uu Uv su sv ->
  (pu < su)%nat -> (pv < sv)%nat -> length Uu = (su + pu + 1)%nat -> length Uv = (sv + pv + 1)%nat ->
  forall Su Sv Suv, derivative_surface Rops pu pv Uu Uv su sv P = (Su, Sv, Suv) ->
  forall u v, knR Uu pu <= u < knR Uu su -> knR Uv pv <= v < knR Uv sv ->
  (forall order, (1 <= order)%nat ->
     let SKL := surface_derivs Rops dim pu pv Uu Uv su sv P u v order in
     Su_point Uu Uv pu pv su sv dim Su u v = get3 SKL 1 0 /\ Sv_point Uu Uv pu pv su sv dim Sv u v = get3 SKL 0 1 /\
     Suv_point Uu Uv pu pv su sv dim Suv u v = get3 SKL 1 1) /\
  (length (Su_point Uu Uv pu pv su sv dim Su u v) = dim /\ length (Sv_point Uu Uv pu pv su sv dim Sv u v) = dim /\
   length (Suv_point Uu Uv pu pv su sv dim Suv u v) = dim) /\
  (forall d, (d < dim)%nat ->
     nth d (Su_point Uu Uv pu pv su sv dim Su u v) 0 = surface_dkl Uu Uv pu pv su sv P 1 0 d u v /\
     nth d (Sv_point Uu Uv pu pv su sv dim Sv u v) 0 = surface_dkl Uu Uv pu pv su sv P 0 1 d u v /\
     nth d (Suv_point Uu Uv pu pv su sv dim Suv u v) 0 = surface_dkl Uu Uv pu pv su sv P 1 1 d u v).
Proof. intros Uu Uv P pu pv su sv dim H1 H2 H3 H4 (G1 & G2 & _). apply derivative_surface_points; try assumption; lia. Qed.
Print Assumptions C02_derivative_surface_evaluates_to_partials.

(* [G] analytically: S_u = dS/du and S_v = dS/dv (of the tensor-product definition surface_def of C01 and of the evaluated point), and
   S_uv = d(S_v)/du = d(S_u)/dv, limit-based, inside the knot spans tu, tv of the two domains *)
Theorem C02_derivative_surface_objects_are_the_true_partials : forall (Uu Uv : list R) (P : list (list R)) (pu pv su sv dim : nat),
  sortedR Uu -> sortedR Uv -> wf_net P dim -> length P = (su * sv)%nat -> derivative_surface_code_returns pu pv Uu Uv su sv ->
  (pu < su)%nat -> (pv < sv)%nat -> length Uu = (su + pu + 1)%nat -> length Uv = (sv + pv + 1)%nat ->
  forall Su Sv Suv, derivative_surface Rops pu pv Uu Uv su sv P = (Su, Sv, Suv) ->
  forall tu tv d, (pu <= tu < su)%nat -> (pv <= tv < sv)%nat -> (d < dim)%nat ->
  (forall u v, knR Uu tu < u < knR Uu (tu + 1) -> knR Uv pv <= v < knR Uv sv ->
     derivable_pt_lim (fun x => surface_def Uu Uv pu pv su sv P d x v) u (nth d (Su_point Uu Uv pu pv su sv dim Su u v) 0) /\
     derivable_pt_lim (fun x => nth d (surface_point Rops dim pu pv Uu Uv su sv P x v) 0) u (nth d (Su_point Uu Uv pu pv su sv dim Su u v) 0) /\
     derivable_pt_lim (fun x => nth d (Sv_point Uu Uv pu pv su sv dim Sv x v) 0) u (nth d (Suv_point Uu Uv pu pv su sv dim Suv u v) 0)) /\
  (forall u v, knR Uu pu <= u < knR Uu su -> knR Uv tv < v < knR Uv (tv + 1) ->
     derivable_pt_lim (fun y => surface_def Uu Uv pu pv su sv P d u y) v (nth d (Sv_point Uu Uv pu pv su sv dim Sv u v) 0) /\
     derivable_pt_lim (fun y => nth d (surface_point Rops dim pu pv Uu Uv su sv P u y) 0) v (nth d (Sv_point Uu Uv pu pv su sv dim Sv u v) 0) /\
     derivable_pt_lim (fun y => nth d (Su_point Uu Uv pu pv su sv dim Su u y) 0) v (nth d (Suv_point Uu Uv pu pv su sv dim Suv u v) 0)).
Proof. intros Uu Uv P pu pv su sv dim H1 H2 H3 H4 (G1 & G2 & _). apply derivative_surface_true_partials; try assumption; lia. Qed.
Print Assumptions C02_derivative_surface_objects_are_the_true_partials.

(* [G] the same as right derivatives on the half-open spans (so also at knots: the property's convention) *)
Theorem C02_derivative_surface_objects_right_partials : forall (Uu Uv : list R) (P : list (list R)) (pu pv su sv dim : nat),
  sortedR Uu -> sortedR Uv -> wf_net P dim -> length P = (su * sv)%nat -> derivative_surface_code_returns pu pv Uu Uv su sv ->
  (pu < su)%nat -> (pv < sv)%nat -> length Uu = (su + pu + 1)%nat -> length Uv = (sv + pv + 1)%nat ->
  forall Su Sv Suv, derivative_surface Rops pu pv Uu Uv su sv P = (Su, Sv, Suv) ->
  forall tu tv d, (pu <= tu < su)%nat -> (pv <= tv < sv)%nat -> (d < dim)%nat ->
  (forall u v, knR Uu tu <= u < knR Uu (tu + 1) -> knR Uv pv <= v < knR Uv sv ->
     right_derivable_pt_lim (fun x => surface_def Uu Uv pu pv su sv P d x v) u (nth d (Su_point Uu Uv pu pv su sv dim Su u v) 0) /\
     right_derivable_pt_lim (fun x => nth d (surface_point Rops dim pu pv Uu Uv su sv P x v) 0) u (nth d (Su_point Uu Uv pu pv su sv dim Su u v) 0) /\
     right_derivable_pt_lim (fun x => nth d (Sv_point Uu Uv pu pv su sv dim Sv x v) 0) u (nth d (Suv_point Uu Uv pu pv su sv dim Suv u v) 0)) /\
  (forall u v, knR Uu pu <= u < knR Uu su -> knR Uv tv <= v < knR Uv (tv + 1) ->
     right_derivable_pt_lim (fun y => surface_def Uu Uv pu pv su sv P d u y) v (nth d (Sv_point Uu Uv pu pv su sv dim Sv u v) 0) /\
     right_derivable_pt_lim (fun y => nth d (surface_point Rops dim pu pv Uu Uv su sv P u y) 0) v (nth d (Sv_point Uu Uv pu pv su sv dim Sv u v) 0) /\
     right_derivable_pt_lim (fun y => nth d (Su_point Uu Uv pu pv su sv dim Su u y) 0) v (nth d (Suv_point Uu Uv pu pv su sv dim Suv u v) 0)).
Proof. intros Uu Uv P pu pv su sv dim H1 H2 H3 H4 (G1 & G2 & _). apply derivative_surface_right_partials; try assumption; lia. Qed.
Print Assumptions C02_derivative_surface_objects_right_partials.

(* non-vacuity: a quadratic curve with an interior knot, and a biquadratic 3 x 4 surface satisfying the guard *)
Example C02_hodograph_hypotheses_satisfiable :
  let U := [0;0;0;1/2;1;1;1] in let P := [[0;0];[1;2];[3;1];[4;0]] in
  let Uu := [0;0;0;1;1;1] in
  sortedR U /\ wf_net P 2 /\ (2 <= 2 < length P)%nat /\ length U = (length P + 2 + 1)%nat /\
  sortedR Uu /\ derivative_surface_code_returns 2 2 Uu U 3 4 /\
  length (snd (derivative_curve Rops 2 U P)) = 3%nat.
Proof.
  cbv zeta.
  assert (Hs : sortedR [0;0;0;1/2;1;1;1]).
  { intros i j [Hij Hj]. cbn in Hj. unfold kn. cbn [o0 Rops].
    do 7 (destruct i as [|i]; [do 7 (destruct j as [|j]; [try lia; cbn; lra|]); lia|]). lia. }
  assert (Hsu : sortedR [0;0;0;1;1;1]).
  { intros i j [Hij Hj]. cbn in Hj. unfold kn. cbn [o0 Rops].
    do 6 (destruct i as [|i]; [do 6 (destruct j as [|j]; [try lia; cbn; lra|]); lia|]). lia. }
  assert (Hw : wf_net [[0;0];[1;2];[3;1];[4;0]] 2).
  { intros i Hi. cbn in Hi. do 4 (destruct i as [|i]; [reflexivity|]). lia. }
  repeat split; try assumption; try (cbn; lia).
  - intros i Hi. assert (i = 0)%nat by lia. subst i. unfold kn. cbn. lra.
  - intros i Hi. assert (i = 0 \/ i = 1)%nat as [-> | ->] by lia; unfold kn; cbn; lra.
Qed.


From NV Require Import Proofs.HodographEnd.

From NV Require Import Proofs.HodographEnd.
Open Scope R_scope.

(* ====================== hodograph objects, the leftovers (Proofs/HodographEnd.v) ======================
   (paste below the HodographObj block of Props/C02.v; add `From NV Require Import Proofs.HodographEnd.` to the Require lines)
   1. the CLOSED right end of the domain (curves) / the closed edges and corners (surfaces): HodographObj covers [U_p, U_n) only;
   2. derivative_curve applied k times;  3. the normal computed from the hodograph surfaces.
   The guards 2 <= p / derivative_curve_iter_code_returns / derivative_surface_code_returns delimit the inputs on which the real code
   returns (known findings hodograph-curve-degree-1, hodograph-surface-degree-1, hodograph-surface-multiple-knot); the lemmas of
   HodographEnd.v hold from degree 1 on (k <= p for the iteration) and without multiplicity guards (x/0 = 0 at the real instance). *)

(* [G] every degree p >= 2, sorted knot vector, well-formed polygon.  (a) for EVERY u >= U_p - the half-open domain, its closed right
   end u = U_n, and beyond (both evaluators then use the last span) - the point of the hodograph object is the first-derivative vector
   of CurveEvaluator.derivatives at u; (b) if the last span is non-empty (e.g. a knot vector clamped at the end) the point of the
   hodograph object at u = U_n is the LEFT derivative of the evaluated point of the input curve, coordinate-wise; (c) if moreover the
   last p+1 knots are equal it is the end tangent p (P_{n-1} - P_{n-2}) / (U_n - U_{n-1}) *)
Theorem C02_derivative_curve_closed_right_end : forall (U : list R) (P : list (list R)) (p dim : nat),
  sortedR U -> wf_net P dim -> (2 <= p)%nat -> (p < length P)%nat -> length U = (length P + p + 1)%nat ->
  forall p' U' Q, derivative_curve Rops p U P = (p', U', Q) ->
  (forall u order, knR U p <= u -> (1 <= order)%nat ->
     curve_point Rops dim p' U' Q u = nth 1 (curve_derivs Rops dim p U P u order) []) /\
  (knR U (length P - 1) < knR U (length P) -> forall d, (d < dim)%nat ->
     left_derivable_pt_lim (fun x => nth d (curve_point Rops dim p U P x) 0) (knR U (length P))
                           (nth d (curve_point Rops dim p' U' Q (knR U (length P))) 0) /\
     ((forall r, (r <= p)%nat -> knR U (length P + r) = knR U (length P)) ->
      nth d (curve_point Rops dim p' U' Q (knR U (length P))) 0
      = INR p * (coord P (length P - 1) d - coord P (length P - 2) d) / (knR U (length P) - knR U (length P - 1)))).
Proof. intros U P p dim Hs Hw Hp. apply derivative_curve_object_closed_end; try assumption; lia. Qed.
Print Assumptions C02_derivative_curve_closed_right_end.

(* the inputs on which k successive calls of the real derivative_curve return: every differentiated stage has degree >= 2 (k <= p-1),
   and then no denominator of A3.3 at any stage j < k (on that stage's own knot vector U[j:-j]) is zero *)
Theorem C02_derivative_curve_iter_guard_means_no_zero_denominator : forall (k p : nat) (U : list R) (n : nat),
  (p < n)%nat -> length U = (n + p + 1)%nat -> derivative_curve_iter_code_returns k p U n ->
  forall j, (j < k)%nat -> (2 <= p - j)%nat /\
  forall i, (i + 2 <= n - j)%nat -> knR (trim_n j U) (i + (p - j) + 1) - knR (trim_n j U) (i + 1) <> 0.
Proof. exact iter_guard_no_zero_denominator. Qed.
Print Assumptions C02_derivative_curve_iter_guard_means_no_zero_denominator.

(* [G] higher hodographs: derivative_curve applied k times returns the curve of degree p-k on U[k:-k] (sorted, (n-k)+(p-k)+1 knots,
   knot m = knot m+k of U) whose n-k control points are row k of helpers.curve_deriv_cpts (A3.3) called with deriv_order = k *)
Theorem C02_derivative_curve_iter_is_valid_curve : forall (U : list R) (P : list (list R)) (p dim : nat),
  sortedR U -> wf_net P dim -> (p < length P)%nat -> length U = (length P + p + 1)%nat ->
  forall k, derivative_curve_iter_code_returns k p U (length P) ->
  forall p' U' Q', derivative_curve_iter k (p, U, P) = (p', U', Q') ->
  (p' = (p - k)%nat /\ U' = trim_n k U /\ Q' = nth k (curve_deriv_cpts Rops p U P 0 (Nat.pred (length P)) k) []) /\
  length Q' = (length P - k)%nat /\ wf_net Q' dim /\ sortedR U' /\ length U' = (length Q' + p' + 1)%nat /\
  (p' < length Q')%nat /\ (forall m, (m < length U')%nat -> knR U' m = knR U (k + m)).
Proof. intros U P p dim Hs Hw Hp HL k (Hk & _). apply derivative_curve_iter_object_valid; try assumption; lia. Qed.
Print Assumptions C02_derivative_curve_iter_is_valid_curve.

(* [G] its evaluated point at every u >= U_p (half-open domain, closed right end, beyond) is the k-th derivative vector that
   CurveEvaluator.derivatives returns for the ORIGINAL curve (any requested order >= k); on the half-open domain
   = sum_i N^(k)_{i,p}(u) P_i (Eq. 2.9), and so is its Cox-de Boor sum *)
Theorem C02_derivative_curve_iter_evaluates_to_kth_derivative : forall (U : list R) (P : list (list R)) (p dim : nat),
  sortedR U -> wf_net P dim -> (p < length P)%nat -> length U = (length P + p + 1)%nat ->
  forall k, derivative_curve_iter_code_returns k p U (length P) ->
  forall p' U' Q', derivative_curve_iter k (p, U, P) = (p', U', Q') ->
  (forall u order, knR U p <= u -> (k <= order)%nat ->
     curve_point Rops dim p' U' Q' u = nth k (curve_derivs Rops dim p U P u order) []) /\
  (forall u, knR U p <= u < knR U (length P) ->
     length (curve_point Rops dim p' U' Q' u) = dim /\
     (forall d, (d < dim)%nat -> nth d (curve_point Rops dim p' U' Q' u) 0 = curve_dk U p P k d u) /\
     (forall d, (d < dim)%nat -> curve_def U' p' Q' d u = curve_dk U p P k d u)).
Proof. intros U P p dim Hs Hw Hp HL k (Hk & _). apply derivative_curve_iter_object_value; try assumption; lia. Qed.
Print Assumptions C02_derivative_curve_iter_evaluates_to_kth_derivative.

(* [G] analytically: the point of the k-fold hodograph is a k-th iterated (limit-based) derivative of every coordinate of the curve
   inside each knot span; one more call of derivative_curve differentiates it once more: two-sided inside the spans, from the right on
   the half-open spans (so at knots), from the left at the closed right end of the domain *)
Theorem C02_derivative_curve_iter_is_the_true_derivative : forall (U : list R) (P : list (list R)) (p dim : nat),
  sortedR U -> wf_net P dim -> (p < length P)%nat -> length U = (length P + p + 1)%nat ->
  forall k, derivative_curve_iter_code_returns k p U (length P) ->
  forall p' U' Q', derivative_curve_iter k (p, U, P) = (p', U', Q') ->
  forall d, (d < dim)%nat ->
  (forall s, (p <= s < length P)%nat ->
     kth_deriv_on (knR U s) (knR U (s + 1)) k (fun x => curve_def U p P d x) (fun x => nth d (curve_point Rops dim p' U' Q' x) 0)) /\
  (forall p'' U'' Q'', (S k <= p)%nat -> derivative_curve Rops p' U' Q' = (p'', U'', Q'') ->
     (forall s u, (p <= s < length P)%nat -> knR U s < u < knR U (s + 1) ->
        derivable_pt_lim (fun x => nth d (curve_point Rops dim p' U' Q' x) 0) u (nth d (curve_point Rops dim p'' U'' Q'' u) 0)) /\
     (forall s u, (p <= s < length P)%nat -> knR U s <= u < knR U (s + 1) ->
        right_derivable_pt_lim (fun x => nth d (curve_point Rops dim p' U' Q' x) 0) u (nth d (curve_point Rops dim p'' U'' Q'' u) 0)) /\
     (knR U (length P - 1) < knR U (length P) ->
        left_derivable_pt_lim (fun x => nth d (curve_point Rops dim p' U' Q' x) 0) (knR U (length P))
                              (nth d (curve_point Rops dim p'' U'' Q'' (knR U (length P))) 0))).
Proof. intros U P p dim Hs Hw Hp HL k (Hk & _). apply derivative_curve_iter_object_true_derivative; try assumption; lia. Qed.
Print Assumptions C02_derivative_curve_iter_is_the_true_derivative.

(* [G] surfaces, the whole CLOSED domain (in fact every real (u, v)): the three objects returned by derivative_surface evaluate to the
   entries [1][0], [0][1], [1][1] of SurfaceEvaluator.derivatives of the input surface - on the edges u = U_su, v = U_sv and at the
   corner both sides are evaluated with the last span(s) *)
Theorem C02_derivative_surface_evaluates_to_partials_closed : forall (Uu Uv : list R) (P : list (list R)) (pu pv su sv dim : nat),
  sortedR Uu -> sortedR Uv -> wf_net P dim -> length P = (su * sv)%nat -> derivative_surface_code_returns pu pv Uu Uv su sv ->
  (pu < su)%nat -> (pv < sv)%nat -> length Uu = (su + pu + 1)%nat -> length Uv = (sv + pv + 1)%nat ->
  forall Su Sv Suv, derivative_surface Rops pu pv Uu Uv su sv P = (Su, Sv, Suv) ->
  forall u v order, (1 <= order)%nat ->
  let SKL := surface_derivs Rops dim pu pv Uu Uv su sv P u v order in
  Su_point Uu Uv pu pv su sv dim Su u v = get3 SKL 1 0 /\ Sv_point Uu Uv pu pv su sv dim Sv u v = get3 SKL 0 1 /\
  Suv_point Uu Uv pu pv su sv dim Suv u v = get3 SKL 1 1.
Proof. intros Uu Uv P pu pv su sv dim H1 H2 H3 H4 (G1 & G2 & _). apply derivative_surface_points_closed; try assumption; lia. Qed.
Print Assumptions C02_derivative_surface_evaluates_to_partials_closed.

(* [G] one-sided partial derivatives in the u-direction; v is ANY parameter (in particular on the closed edge v = U_sv): S_u is the
   u-partial of the evaluated point and S_uv the u-partial of S_v - two-sided inside a u-span, from the right on the half-open u-span,
   from the LEFT at the closed edge u = U_su (last u-span non-empty, e.g. clamped) *)
Theorem C02_derivative_surface_partials_u_closed : forall (Uu Uv : list R) (P : list (list R)) (pu pv su sv dim : nat),
  sortedR Uu -> sortedR Uv -> wf_net P dim -> length P = (su * sv)%nat -> derivative_surface_code_returns pu pv Uu Uv su sv ->
  (pu < su)%nat -> (pv < sv)%nat -> length Uu = (su + pu + 1)%nat -> length Uv = (sv + pv + 1)%nat ->
  forall Su Sv Suv, derivative_surface Rops pu pv Uu Uv su sv P = (Su, Sv, Suv) ->
  forall d v, (d < dim)%nat ->
  (forall tu u, (pu <= tu < su)%nat -> knR Uu tu < u < knR Uu (tu + 1) ->
     derivable_pt_lim (fun x => nth d (surface_point Rops dim pu pv Uu Uv su sv P x v) 0) u (nth d (Su_point Uu Uv pu pv su sv dim Su u v) 0) /\
     derivable_pt_lim (fun x => nth d (Sv_point Uu Uv pu pv su sv dim Sv x v) 0) u (nth d (Suv_point Uu Uv pu pv su sv dim Suv u v) 0)) /\
  (forall tu u, (pu <= tu < su)%nat -> knR Uu tu <= u < knR Uu (tu + 1) ->
     right_derivable_pt_lim (fun x => nth d (surface_point Rops dim pu pv Uu Uv su sv P x v) 0) u (nth d (Su_point Uu Uv pu pv su sv dim Su u v) 0) /\
     right_derivable_pt_lim (fun x => nth d (Sv_point Uu Uv pu pv su sv dim Sv x v) 0) u (nth d (Suv_point Uu Uv pu pv su sv dim Suv u v) 0)) /\
  (knR Uu (su - 1) < knR Uu su ->
     left_derivable_pt_lim (fun x => nth d (surface_point Rops dim pu pv Uu Uv su sv P x v) 0) (knR Uu su)
                           (nth d (Su_point Uu Uv pu pv su sv dim Su (knR Uu su) v) 0) /\
     left_derivable_pt_lim (fun x => nth d (Sv_point Uu Uv pu pv su sv dim Sv x v) 0) (knR Uu su)
                           (nth d (Suv_point Uu Uv pu pv su sv dim Suv (knR Uu su) v) 0)).
Proof.
  intros Uu Uv P pu pv su sv dim H1 H2 H3 H4 (G1 & G2 & _) H5 H6 H7 H8 Su Sv Suv E d v Hd.
  apply (derivative_surface_partials_u_closed Uu Uv P pu pv su sv dim); try assumption; lia.
Qed.
Print Assumptions C02_derivative_surface_partials_u_closed.

(* [G] the same in the v-direction; u is ANY parameter (in particular on the closed edge u = U_su) *)
Theorem C02_derivative_surface_partials_v_closed : forall (Uu Uv : list R) (P : list (list R)) (pu pv su sv dim : nat),
  sortedR Uu -> sortedR Uv -> wf_net P dim -> length P = (su * sv)%nat -> derivative_surface_code_returns pu pv Uu Uv su sv ->
  (pu < su)%nat -> (pv < sv)%nat -> length Uu = (su + pu + 1)%nat -> length Uv = (sv + pv + 1)%nat ->
  forall Su Sv Suv, derivative_surface Rops pu pv Uu Uv su sv P = (Su, Sv, Suv) ->
  forall d u, (d < dim)%nat ->
  (forall tv v, (pv <= tv < sv)%nat -> knR Uv tv < v < knR Uv (tv + 1) ->
     derivable_pt_lim (fun y => nth d (surface_point Rops dim pu pv Uu Uv su sv P u y) 0) v (nth d (Sv_point Uu Uv pu pv su sv dim Sv u v) 0) /\
     derivable_pt_lim (fun y => nth d (Su_point Uu Uv pu pv su sv dim Su u y) 0) v (nth d (Suv_point Uu Uv pu pv su sv dim Suv u v) 0)) /\
  (forall tv v, (pv <= tv < sv)%nat -> knR Uv tv <= v < knR Uv (tv + 1) ->
     right_derivable_pt_lim (fun y => nth d (surface_point Rops dim pu pv Uu Uv su sv P u y) 0) v (nth d (Sv_point Uu Uv pu pv su sv dim Sv u v) 0) /\
     right_derivable_pt_lim (fun y => nth d (Su_point Uu Uv pu pv su sv dim Su u y) 0) v (nth d (Suv_point Uu Uv pu pv su sv dim Suv u v) 0)) /\
  (knR Uv (sv - 1) < knR Uv sv ->
     left_derivable_pt_lim (fun y => nth d (surface_point Rops dim pu pv Uu Uv su sv P u y) 0) (knR Uv sv)
                           (nth d (Sv_point Uu Uv pu pv su sv dim Sv u (knR Uv sv)) 0) /\
     left_derivable_pt_lim (fun y => nth d (Su_point Uu Uv pu pv su sv dim Su u y) 0) (knR Uv sv)
                           (nth d (Suv_point Uu Uv pu pv su sv dim Suv u (knR Uv sv)) 0)).
Proof.
  intros Uu Uv P pu pv su sv dim H1 H2 H3 H4 (G1 & G2 & _) H5 H6 H7 H8 Su Sv Suv E d u Hd.
  apply (derivative_surface_partials_v_closed Uu Uv P pu pv su sv dim); try assumption; lia.
Qed.
Print Assumptions C02_derivative_surface_partials_v_closed.

(* [G] non-rational surface, either evaluator family, every (u, v) at which the query returns: the two tangent vectors of
   operations.tangent are the points of the hodograph surfaces S_u, S_v *)
Theorem C02_tangent_surface_is_hodograph_points : forall (Uu Uv : list R) (P : list (list R)) (pu pv su sv dim : nat),
  sortedR Uu -> sortedR Uv -> wf_net P dim -> length P = (su * sv)%nat -> derivative_surface_code_returns pu pv Uu Uv su sv ->
  (pu < su)%nat -> (pv < sv)%nat -> length Uu = (su + pu + 1)%nat -> length Uv = (sv + pv + 1)%nat ->
  forall Su Sv Suv, derivative_surface Rops pu pv Uu Uv su sv P = (Su, Sv, Suv) ->
  forall normalize alg2 u v pt Tu Tv,
  tangent_surface Rops normalize false alg2 dim pu pv Uu Uv su sv P u v = Ok (pt, Tu, Tv) ->
  Tu = Su_point Uu Uv pu pv su sv dim Su u v /\ Tv = Sv_point Uu Uv pu pv su sv dim Sv u v /\
  (forall d, (d < dim)%nat -> nth d pt 0 = nth d (surface_point Rops dim pu pv Uu Uv su sv P u v) 0).
Proof.
  intros Uu Uv P pu pv su sv dim H1 H2 H3 H4 (G1 & G2 & _) H5 H6 H7 H8 Su Sv Suv E normalize alg2 u v pt Tu Tv.
  apply (tangent_surface_is_hodograph_points Uu Uv P pu pv su sv dim) with (Suv := Suv); try assumption; lia.
Qed.
Print Assumptions C02_tangent_surface_is_hodograph_points.

(* [G] the normal of C02 computed from the hodograph surfaces, cross(S_u(u,v), S_v(u,v)), IS the vector operations.normal returns, and
   so is the unit normal (unit_sq = linalg.vector_normalize, Rejected for a zero vector) *)
Theorem C02_normal_from_hodograph_surfaces : forall (Uu Uv : list R) (P : list (list R)) (pu pv su sv dim : nat),
  sortedR Uu -> sortedR Uv -> wf_net P dim -> length P = (su * sv)%nat -> derivative_surface_code_returns pu pv Uu Uv su sv ->
  (pu < su)%nat -> (pv < sv)%nat -> length Uu = (su + pu + 1)%nat -> length Uv = (sv + pv + 1)%nat ->
  forall Su Sv Suv, derivative_surface Rops pu pv Uu Uv su sv P = (Su, Sv, Suv) ->
  forall normalize alg2 u v pt nv,
  normal_surface Rops normalize false alg2 dim pu pv Uu Uv su sv P u v = Ok (pt, nv) ->
  nv = cross Rops (Su_point Uu Uv pu pv su sv dim Su u v) (Sv_point Uu Uv pu pv su sv dim Sv u v) /\
  unit_sq Rops nv = unit_sq Rops (cross Rops (Su_point Uu Uv pu pv su sv dim Su u v) (Sv_point Uu Uv pu pv su sv dim Sv u v)) /\
  (forall d, (d < dim)%nat -> nth d pt 0 = nth d (surface_point Rops dim pu pv Uu Uv su sv P u v) 0).
Proof.
  intros Uu Uv P pu pv su sv dim H1 H2 H3 H4 (G1 & G2 & _) H5 H6 H7 H8 Su Sv Suv E normalize alg2 u v pt nv.
  apply (normal_surface_is_hodograph_cross Uu Uv P pu pv su sv dim) with (Suv := Suv); try assumption; lia.
Qed.
Print Assumptions C02_normal_from_hodograph_surfaces.

(* non-vacuity: a clamped quadratic curve with an interior knot - all hypotheses of the closed-end theorem hold and the hodograph object
   evaluates at u = U_n = 1 to the end tangent 2 (P_3 - P_2) / (1 - 1/2) = (4, -4) *)
Example C02_hodograph_end_hypotheses_satisfiable :
  let U := [0;0;0;1/2;1;1;1] in let P := [[0;0];[1;2];[3;1];[4;0]] in
  sortedR U /\ wf_net P 2 /\ (1 <= 2 < length P)%nat /\ length U = (length P + 2 + 1)%nat /\
  knR U (length P - 1) < knR U (length P) /\ (forall r, (r <= 2)%nat -> knR U (length P + r) = knR U (length P)) /\
  (forall p' U' Q, derivative_curve Rops 2 U P = (p', U', Q) ->
     nth 0 (curve_point Rops 2 p' U' Q 1) 0 = 4 /\ nth 1 (curve_point Rops 2 p' U' Q 1) 0 = -4).
Proof. exact hodograph_end_hypotheses_satisfiable. Qed.

(* non-vacuity: a clamped cubic with an interior knot differentiated twice satisfies the guard; the result has degree 1, 3 control
   points, 5 knots *)
Example C02_hodograph_iter_hypotheses_satisfiable :
  let U := [0;0;0;0;1/2;1;1;1;1] in let P := [[0;0];[1;2];[3;1];[4;0];[5;5]] in
  sortedR U /\ wf_net P 2 /\ (3 < length P)%nat /\ length U = (length P + 3 + 1)%nat /\
  derivative_curve_iter_code_returns 2 3 U (length P) /\
  (forall p' U' Q', derivative_curve_iter 2 (3%nat, U, P) = (p', U', Q') -> p' = 1%nat /\ length Q' = 3%nat /\ length U' = 5%nat).
Proof. exact hodograph_iter_hypotheses_satisfiable. Qed.

(* non-vacuity: a biquadratic 3 x 4 surface satisfying the guard, both last spans non-empty *)
Example C02_hodograph_surface_end_hypotheses_satisfiable :
  let Uu := [0;0;0;1;1;1] in let Uv := [0;0;0;1/2;1;1;1] in
  let P := [[0;0;0];[0;1;1];[0;2;0];[0;3;2]; [1;0;1];[1;1;3];[1;2;1];[1;3;0]; [2;0;0];[2;1;1];[2;2;2];[2;3;1]] in
  sortedR Uu /\ sortedR Uv /\ wf_net P 3 /\ length P = (3 * 4)%nat /\ (1 <= 2 < 3)%nat /\ (1 <= 2 < 4)%nat /\
  length Uu = (3 + 2 + 1)%nat /\ length Uv = (4 + 2 + 1)%nat /\
  knR Uu (3 - 1) < knR Uu 3 /\ knR Uv (4 - 1) < knR Uv 4 /\ derivative_surface_code_returns 2 2 Uu Uv 3 4.
Proof. exact hodograph_surface_end_hypotheses_satisfiable. Qed.

(* ====================== TRANSLATOR TIE (Proofs/GenTie*.v) ======================
   coq/Gen/*.v is the Gallina rendering of the Python source produced by harness/pytrans.py; every run of ./check regenerates it
   from /repo and compares it function by function with the committed text (evidence: translator_tie).  The theorems below say
   that the hand-written model (the subject of the theorems above) computes, for ALL inputs satisfying the stated
   well-formedness, exactly what the translated source computes.  This block stays LAST in the file: its imports shadow
   model names. *)
From Coq Require Import List QArith Reals Qreals Lia Lra Arith Bool ZArith.
From NV Require Import Scalar.Ops Model.Common Model.Basis Model.Knots Model.KnotIns Model.KnotRem Model.LinAlg Model.Degree
  Gen.Prelude Gen.LinalgInternal Gen.Linalg Gen.Knotvector Gen.Helpers
  Proofs.GenTieSums Proofs.GenTieLinAlg Proofs.GenTieSubst Proofs.GenTieLU Proofs.GenTieLUSolve Proofs.GenTieKnotRem Proofs.GenTieDegree
  Proofs.GenTieLib Proofs.GenTieKnots Proofs.GenTieSpan Proofs.GenTieBasis Proofs.GenTieBasisOne
  Proofs.GenTieDersOne Proofs.GenTieDersLib Proofs.GenTieDers Proofs.GenTieKnotIns.
Local Open Scope nat_scope.
From NV Require Import Gen.PreludeExt Gen.LinalgMat Proofs.GenTieMat Proofs.GenTieMatSolve Proofs.GenTieBinom.
From NV Require Import Gen.PreludeExt Gen.HelpersB Proofs.GenTieKnotRemove.
From NV Require Import Gen.HelpersB Proofs.GenTieElev.
From NV Require Import Model.Geom2D Model.Voxel Gen.PreludeExt Gen.LinalgGeom Gen.Voxelize Proofs.GenTieGeom Proofs.GenTieVoxel
  Proofs.GenTieHull.
From NV Require Import Model.Hull Gen.Utilities Proofs.GenTieBBox.
From NV Require Import Model.Fit Gen.Fitting Proofs.GenTieFit.

From NV Require Import Model.Derivs Proofs.GenTieDerivCpts.

(* [G] helpers.curve_deriv_cpts.  The source fills its result with None placeholders and row k keeps min(k, r+1) of them: the
   generated code has slots of type option T, injPK dim r M = the model's rows M (the defined points) injected with Some and
   padded with placeholder points to r+1 entries.  wf: rs = (r1, r2), r1 <= r2 < len(cpts), r2 + degree < len(kv),
   deriv_order <= degree + 1 *)
Theorem C02_gen_curve_deriv_cpts_R : forall (dim p : nat) (kv : list R) (cpts : list (list R)) (r1 r2 order : nat),
  r1 <= r2 -> r2 < length cpts -> r2 + p < length kv -> order <= S p ->
  HelpersB.curve_deriv_cpts Rops (Z.of_nat dim) (Z.of_nat p) kv cpts [Z.of_nat r1; Z.of_nat r2] (Z.of_nat order) =
  GOk (injPK dim (r2 - r1) (Derivs.curve_deriv_cpts Rops p kv cpts r1 r2 order)).
Proof. exact curve_deriv_cpts_tie_R. Qed.
Print Assumptions C02_gen_curve_deriv_cpts_R.
Theorem C02_gen_curve_deriv_cpts_Q : forall (dim p : nat) (kv : list Q) (cpts : list (list Q)) (r1 r2 order : nat),
  r1 <= r2 -> r2 < length cpts -> r2 + p < length kv -> order <= S p ->
  HelpersB.curve_deriv_cpts Qops (Z.of_nat dim) (Z.of_nat p) kv cpts [Z.of_nat r1; Z.of_nat r2] (Z.of_nat order) =
  GOk (injPK dim (r2 - r1) (Derivs.curve_deriv_cpts Qops p kv cpts r1 r2 order)).
Proof. exact curve_deriv_cpts_tie_Q. Qed.
Print Assumptions C02_gen_curve_deriv_cpts_Q.

(* [G] helpers.surface_deriv_cpts (as repaired).  Its table PKL has (order+1) x (order+1) x size_u x size_v points filled with None
   placeholders; the model returns the defined entries only.  The generated code succeeds and every entry the model defines
   (k <= du, l <= min(order-k, dv), k+i <= r, l+j <= s) is the model's point, injected with Some.
   wf: rs = (r1, r2), r1 <= r2 < size_u; ss = (s1, s2), s1 <= s2 < size_v; size_u * size_v <= len(cpts); the knots read exist *)
From NV Require Import Proofs.GenTieArr4 Proofs.GenTieDerivSurf.
Theorem C02_gen_surface_deriv_cpts_R : forall (dim pu pv : nat) (Uu Uv : list R) (P : list (list R)) (su sv r1 r2 s1 s2 order : nat),
  r1 <= r2 -> r2 < su -> s1 <= s2 -> s2 < sv -> su * sv <= length P -> r2 + pu < length Uu -> s2 + pv < length Uv ->
  exists PKL, HelpersB.surface_deriv_cpts Rops (Z.of_nat dim) [Z.of_nat pu; Z.of_nat pv] [Uu; Uv] P [Z.of_nat su; Z.of_nat sv]
                [Z.of_nat r1; Z.of_nat r2] [Z.of_nat s1; Z.of_nat s2] (Z.of_nat order) = GOk PKL
    /\ forall k l i j, k <= Nat.min pu order -> l <= Nat.min (order - k) (Nat.min pv order) -> k + i <= r2 - r1 -> l + j <= s2 - s1 ->
         nth j (nth i (nth l (nth k PKL []) []) []) [] =
         map Some (pkl_get (Derivs.surface_deriv_cpts Rops pu pv Uu Uv P su sv r1 r2 s1 s2 order) k l i j).
Proof. exact surface_deriv_cpts_tie_R. Qed.
Print Assumptions C02_gen_surface_deriv_cpts_R.
Theorem C02_gen_surface_deriv_cpts_Q : forall (dim pu pv : nat) (Uu Uv : list Q) (P : list (list Q)) (su sv r1 r2 s1 s2 order : nat),
  r1 <= r2 -> r2 < su -> s1 <= s2 -> s2 < sv -> su * sv <= length P -> r2 + pu < length Uu -> s2 + pv < length Uv ->
  exists PKL, HelpersB.surface_deriv_cpts Qops (Z.of_nat dim) [Z.of_nat pu; Z.of_nat pv] [Uu; Uv] P [Z.of_nat su; Z.of_nat sv]
                [Z.of_nat r1; Z.of_nat r2] [Z.of_nat s1; Z.of_nat s2] (Z.of_nat order) = GOk PKL
    /\ forall k l i j, k <= Nat.min pu order -> l <= Nat.min (order - k) (Nat.min pv order) -> k + i <= r2 - r1 -> l + j <= s2 - s1 ->
         nth j (nth i (nth l (nth k PKL []) []) []) [] =
         map Some (pkl_get (Derivs.surface_deriv_cpts Qops pu pv Uu Uv P su sv r1 r2 s1 s2 order) k l i j).
Proof. exact surface_deriv_cpts_tie_Q. Qed.
Print Assumptions C02_gen_surface_deriv_cpts_Q.
Example C02_gen_nonvacuous :
  HelpersB.curve_deriv_cpts Qops 2 3 [0; 0; 0; 0; 1#4; 1#2; 1#2; 3#4; 1; 1; 1; 1]%Q
    [[0; 0]; [1; 2]; [2; 3]; [4; 3]; [5; 1]; [6; 0]; [7; 2]; [9; 3]]%Q [2%Z; 5%Z] 1 =
    GOk [[[Some 2; Some 3]; [Some 4; Some 3]; [Some 5; Some 1]; [Some 6; Some 0]];
         [[Some 12; Some 0]; [Some 6; Some (-12)]; [Some 6; Some (-6)]; [None; None]]]%Q.
Proof. vm_compute; reflexivity. Qed.

From NV Require Import Model.KnotRefine Proofs.GenTieRefine.
From NV Require Import Model.Eval Gen.Evaluators Proofs.GenTieEvalLib Proofs.GenTieEvalCurve Proofs.GenTieEvalSurf Proofs.GenTieEvalVol.

From NV Require Import Model.Derivs Gen.HelpersC Proofs.GenTieBinom Proofs.GenTieBasisAll Proofs.GenTieEvalDerivCurve Proofs.GenTieEvalDerivCurve2.

(* [G] helpers.basis_function_all: the source's (p+1) x (p+1) table with None below the diagonal = inj_bfall of the model's rows *)
Theorem C02_gen_basis_function_all_R : forall (p : nat) (U : list R) (sp : nat) (u : R),
  p <= sp + 1 -> sp + p < length U ->
  HelpersC.basis_function_all Rops (Z.of_nat p) U (Z.of_nat sp) u = GOk (inj_bfall Rops p (Basis.basis_function_all Rops p U sp u)).
Proof. exact basis_function_all_tie_R. Qed.
Print Assumptions C02_gen_basis_function_all_R.

(* [G] helpers.basis_function_all: the source's (p+1) x (p+1) table with None below the diagonal = inj_bfall of the model's rows *)
Theorem C02_gen_basis_function_all_Q : forall (p : nat) (U : list Q) (sp : nat) (u : Q),
  p <= sp + 1 -> sp + p < length U ->
  HelpersC.basis_function_all Qops (Z.of_nat p) U (Z.of_nat sp) u = GOk (inj_bfall Qops p (Basis.basis_function_all Qops p U sp u)).
Proof. exact basis_function_all_tie_Q. Qed.
Print Assumptions C02_gen_basis_function_all_Q.

(* [G] CurveEvaluator.derivatives (A3.2), any derivative order *)
Theorem C02_gen_CurveEvaluator_derivatives_R : forall (dd : geomdata R) (p : nat) (U : list R) (P : list (list R)) (u : R) (order : nat),
  curve_dd dd p U P -> p < length P -> length P + p <= length U ->
  Evaluators.CurveEvaluator_derivatives Rops (Helpers.find_span_linear Rops) dd u (Z.of_nat order) =
  GOk (curve_derivs Rops (Z.to_nat (eval_dim dd)) p U P u order).
Proof. exact CurveEvaluator_derivatives_tie_R. Qed.
Print Assumptions C02_gen_CurveEvaluator_derivatives_R.

(* [G] CurveEvaluator.derivatives (A3.2), any derivative order *)
Theorem C02_gen_CurveEvaluator_derivatives_Q : forall (dd : geomdata Q) (p : nat) (U : list Q) (P : list (list Q)) (u : Q) (order : nat),
  curve_dd dd p U P -> p < length P -> length P + p <= length U ->
  Evaluators.CurveEvaluator_derivatives Qops (Helpers.find_span_linear Qops) dd u (Z.of_nat order) =
  GOk (curve_derivs Qops (Z.to_nat (eval_dim dd)) p U P u order).
Proof. exact CurveEvaluator_derivatives_tie_Q. Qed.
Print Assumptions C02_gen_CurveEvaluator_derivatives_Q.

(* [G] CurveEvaluatorRational.derivatives (A4.2 on the derivatives of the weighted curve) *)
Theorem C02_gen_CurveEvaluatorRational_derivatives_R : forall (dd : geomdata R) (p : nat) (U : list R) (P : list (list R)) (u : R) (order : nat),
  curve_dd dd p U P -> p < length P -> length P + p <= length U ->
  (1 <= eval_dim dd)%Z -> (forall pt, In pt P -> Z.of_nat (length pt) = eval_dim dd) ->
  Evaluators.CurveEvaluatorRational_derivatives Rops (Helpers.find_span_linear Rops) dd u (Z.of_nat order) =
  GOk (rat_curve_derivs Rops (curve_derivs Rops (Z.to_nat (eval_dim dd)) p U P u order) order).
Proof. exact CurveEvaluatorRational_derivatives_tie_R. Qed.
Print Assumptions C02_gen_CurveEvaluatorRational_derivatives_R.

(* [G] CurveEvaluatorRational.derivatives (A4.2 on the derivatives of the weighted curve) *)
Theorem C02_gen_CurveEvaluatorRational_derivatives_Q : forall (dd : geomdata Q) (p : nat) (U : list Q) (P : list (list Q)) (u : Q) (order : nat),
  curve_dd dd p U P -> p < length P -> length P + p <= length U ->
  (1 <= eval_dim dd)%Z -> (forall pt, In pt P -> Z.of_nat (length pt) = eval_dim dd) ->
  Evaluators.CurveEvaluatorRational_derivatives Qops (Helpers.find_span_linear Qops) dd u (Z.of_nat order) =
  GOk (rat_curve_derivs Qops (curve_derivs Qops (Z.to_nat (eval_dim dd)) p U P u order) order).
Proof. exact CurveEvaluatorRational_derivatives_tie_Q. Qed.
Print Assumptions C02_gen_CurveEvaluatorRational_derivatives_Q.

(* [G] CurveEvaluator2.derivatives (A3.4: basis_function_all and the derivative control points of A3.3) *)
Theorem C02_gen_CurveEvaluator2_derivatives_R : forall (dd : geomdata R) (p : nat) (U : list R) (P : list (list R)) (u : R) (order : nat),
  curve_dd dd p U P -> p < length P -> length P + p <= length U -> (0 <= eval_dim dd)%Z ->
  Evaluators.CurveEvaluator2_derivatives Rops (Helpers.find_span_linear Rops) dd u (Z.of_nat order) =
  GOk (curve_derivs2 Rops (Z.to_nat (eval_dim dd)) p U P u order).
Proof. exact CurveEvaluator2_derivatives_tie_R. Qed.
Print Assumptions C02_gen_CurveEvaluator2_derivatives_R.

(* [G] CurveEvaluator2.derivatives (A3.4: basis_function_all and the derivative control points of A3.3) *)
Theorem C02_gen_CurveEvaluator2_derivatives_Q : forall (dd : geomdata Q) (p : nat) (U : list Q) (P : list (list Q)) (u : Q) (order : nat),
  curve_dd dd p U P -> p < length P -> length P + p <= length U -> (0 <= eval_dim dd)%Z ->
  Evaluators.CurveEvaluator2_derivatives Qops (Helpers.find_span_linear Qops) dd u (Z.of_nat order) =
  GOk (curve_derivs2 Qops (Z.to_nat (eval_dim dd)) p U P u order).
Proof. exact CurveEvaluator2_derivatives_tie_Q. Qed.
Print Assumptions C02_gen_CurveEvaluator2_derivatives_Q.

(* ---- derivatives of surfaces (Props/C02.v, Props/C17.v).  add to the Require line:  Proofs.GenTieEvalDerivSurf Proofs.GenTieEvalDerivSurfRat
        Proofs.GenTieDerivSurfShape Proofs.GenTieEvalDerivSurf2.  surf_dd' = surf_dd without the sample sizes ---- *)
From NV Require Import Proofs.GenTieEvalDerivSurf Proofs.GenTieEvalDerivSurfRat Proofs.GenTieEvalDerivSurf2.

(* [G] SurfaceEvaluator.derivatives (A3.6 as written: the whole square 0..order x 0..order is computed), any derivative order *)
Theorem C02_gen_SurfaceEvaluator_derivatives_R : forall (dd : geomdata R) (pu pv : nat) (Uu Uv : list R) (su sv : nat) (P : list (list R))
    (u v : R) (order : nat),
  surf_dd' dd pu pv Uu Uv su sv P ->
  pu < su -> su + pu <= length Uu -> pv < sv -> sv + pv <= length Uv -> su * sv <= length P ->
  Evaluators.SurfaceEvaluator_derivatives Rops (Helpers.find_span_linear Rops) dd [u; v] (Z.of_nat order) =
  GOk (surface_derivs Rops (Z.to_nat (eval_dim dd)) pu pv Uu Uv su sv P u v order).
Proof. exact SurfaceEvaluator_derivatives_tie_R. Qed.
Print Assumptions C02_gen_SurfaceEvaluator_derivatives_R.

(* [G] SurfaceEvaluator.derivatives (A3.6 as written: the whole square 0..order x 0..order is computed), any derivative order *)
Theorem C02_gen_SurfaceEvaluator_derivatives_Q : forall (dd : geomdata Q) (pu pv : nat) (Uu Uv : list Q) (su sv : nat) (P : list (list Q))
    (u v : Q) (order : nat),
  surf_dd' dd pu pv Uu Uv su sv P ->
  pu < su -> su + pu <= length Uu -> pv < sv -> sv + pv <= length Uv -> su * sv <= length P ->
  Evaluators.SurfaceEvaluator_derivatives Qops (Helpers.find_span_linear Qops) dd [u; v] (Z.of_nat order) =
  GOk (surface_derivs Qops (Z.to_nat (eval_dim dd)) pu pv Uu Uv su sv P u v order).
Proof. exact SurfaceEvaluator_derivatives_tie_Q. Qed.
Print Assumptions C02_gen_SurfaceEvaluator_derivatives_Q.

(* [G] SurfaceEvaluatorRational.derivatives (A4.4 on the derivatives of the weighted surface) *)
Theorem C02_gen_SurfaceEvaluatorRational_derivatives_R : forall (dd : geomdata R) (pu pv : nat) (Uu Uv : list R) (su sv : nat)
    (P : list (list R)) (u v : R) (order : nat),
  surf_dd' dd pu pv Uu Uv su sv P ->
  pu < su -> su + pu <= length Uu -> pv < sv -> sv + pv <= length Uv -> su * sv <= length P ->
  (1 <= eval_dim dd)%Z -> (forall pt, In pt P -> Z.of_nat (length pt) = eval_dim dd) ->
  Evaluators.SurfaceEvaluatorRational_derivatives Rops (Helpers.find_span_linear Rops) dd [u; v] (Z.of_nat order) =
  GOk (rat_surface_derivs Rops (Z.to_nat (eval_dim dd))
         (surface_derivs Rops (Z.to_nat (eval_dim dd)) pu pv Uu Uv su sv P u v order) order).
Proof. exact SurfaceEvaluatorRational_derivatives_tie_R. Qed.
Print Assumptions C02_gen_SurfaceEvaluatorRational_derivatives_R.

(* [G] SurfaceEvaluatorRational.derivatives (A4.4 on the derivatives of the weighted surface) *)
Theorem C02_gen_SurfaceEvaluatorRational_derivatives_Q : forall (dd : geomdata Q) (pu pv : nat) (Uu Uv : list Q) (su sv : nat)
    (P : list (list Q)) (u v : Q) (order : nat),
  surf_dd' dd pu pv Uu Uv su sv P ->
  pu < su -> su + pu <= length Uu -> pv < sv -> sv + pv <= length Uv -> su * sv <= length P ->
  (1 <= eval_dim dd)%Z -> (forall pt, In pt P -> Z.of_nat (length pt) = eval_dim dd) ->
  Evaluators.SurfaceEvaluatorRational_derivatives Qops (Helpers.find_span_linear Qops) dd [u; v] (Z.of_nat order) =
  GOk (rat_surface_derivs Qops (Z.to_nat (eval_dim dd))
         (surface_derivs Qops (Z.to_nat (eval_dim dd)) pu pv Uu Uv su sv P u v order) order).
Proof. exact SurfaceEvaluatorRational_derivatives_tie_Q. Qed.
Print Assumptions C02_gen_SurfaceEvaluatorRational_derivatives_Q.

(* [G] SurfaceEvaluator2.derivatives (A3.8: basis_function_all and the derivative control points of A3.7; the triangle k + l <= order) *)
Theorem C02_gen_SurfaceEvaluator2_derivatives_R : forall (dd : geomdata R) (pu pv : nat) (Uu Uv : list R) (su sv : nat) (P : list (list R))
    (u v : R) (order : nat),
  surf_dd' dd pu pv Uu Uv su sv P ->
  pu < su -> su + pu <= length Uu -> pv < sv -> sv + pv <= length Uv -> su * sv <= length P -> (0 <= eval_dim dd)%Z ->
  Evaluators.SurfaceEvaluator2_derivatives Rops (Helpers.find_span_linear Rops) dd [u; v] (Z.of_nat order) =
  GOk (surface_derivs2 Rops (Z.to_nat (eval_dim dd)) pu pv Uu Uv su sv P u v order).
Proof. exact SurfaceEvaluator2_derivatives_tie_R. Qed.
Print Assumptions C02_gen_SurfaceEvaluator2_derivatives_R.

(* [G] SurfaceEvaluator2.derivatives (A3.8: basis_function_all and the derivative control points of A3.7; the triangle k + l <= order) *)
Theorem C02_gen_SurfaceEvaluator2_derivatives_Q : forall (dd : geomdata Q) (pu pv : nat) (Uu Uv : list Q) (su sv : nat) (P : list (list Q))
    (u v : Q) (order : nat),
  surf_dd' dd pu pv Uu Uv su sv P ->
  pu < su -> su + pu <= length Uu -> pv < sv -> sv + pv <= length Uv -> su * sv <= length P -> (0 <= eval_dim dd)%Z ->
  Evaluators.SurfaceEvaluator2_derivatives Qops (Helpers.find_span_linear Qops) dd [u; v] (Z.of_nat order) =
  GOk (surface_derivs2 Qops (Z.to_nat (eval_dim dd)) pu pv Uu Uv su sv P u v order).
Proof. exact SurfaceEvaluator2_derivatives_tie_Q. Qed.
Print Assumptions C02_gen_SurfaceEvaluator2_derivatives_Q.

