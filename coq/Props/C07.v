(* C07 - splitting and Bezier decomposition reproduce the original piecewise.
   Statements about the Gallina model of operations.split_curve / split_surface_u / split_surface_v /
   decompose_curve / decompose_surface (Model/Split.v); proofs live in Proofs/SplitR.v.
   Legend: [G] all inputs; partial = only part of the property sentence, see the comment. *)
From Coq Require Import List QArith Reals Qreals Lia Arith Bool ZArith.
From NV Require Import Scalar.Ops Model.Common Model.Basis Model.Knots Model.KnotIns Model.InsertKnot Model.Split
  Proofs.BasisR Proofs.KnotsR Proofs.KnotInsR Proofs.SplitR Proofs.SplitBezier Run.Harness.
From NV Require Import Proofs.Boehm Proofs.InsertKnotR Proofs.InsertDirR Proofs.SplitLocal Proofs.SplitCoincide Proofs.SplitCount Proofs.SplitSurf Proofs.SplitExamples.
From NV Require Import Proofs.SplitSurfDecompose.
Import ListNotations.

(* [G] splitting at a domain end is rejected: curve, surface u, surface v; all shapes, all tolerances *)
Theorem C07_split_curve_rejects_domain_ends : forall tol (c : @curve R) param,
  param = knR (c_U c) (c_p c) \/ param = knR (c_U c) (length (c_U c) - S (c_p c)) ->
  split_curve Rops tol c param = Rejected.
Proof. exact split_curve_rejects_ends. Qed.
Print Assumptions C07_split_curve_rejects_domain_ends.

Theorem C07_split_surface_u_rejects_domain_ends : forall tol (g : @surf R) param,
  param = knR (s_Uu g) (s_pu g) \/ param = knR (s_Uu g) (length (s_Uu g) - S (s_pu g)) ->
  split_surface_u Rops tol g param = Rejected.
Proof. exact split_surface_u_rejects_ends. Qed.
Print Assumptions C07_split_surface_u_rejects_domain_ends.

Theorem C07_split_surface_v_rejects_domain_ends : forall tol (g : @surf R) param,
  param = knR (s_Uv g) (s_pv g) \/ param = knR (s_Uv g) (length (s_Uv g) - S (s_pv g)) ->
  split_surface_v Rops tol g param = Rejected.
Proof. exact split_surface_v_rejects_ends. Qed.
Print Assumptions C07_split_surface_v_rejects_domain_ends.

(* [G] conversely a split that returns pieces was at neither end *)
Theorem C07_split_curve_ok_is_interior : forall tol (c : @curve R) param x,
  split_curve Rops tol c param = Ok x ->
  param <> knR (c_U c) (c_p c) /\ param <> knR (c_U c) (length (c_U c) - S (c_p c)).
Proof. exact split_curve_ok_interior. Qed.
Print Assumptions C07_split_curve_ok_is_interior.

(* [G] split_structure: whenever split_curve returns two pieces, with tc = the curve refined by
   insert_knot(check_num=False) r = p - s times, ks = span - p + 1 and kspan = span(tc) + 1:
   same degree; nets = first ks+r points / points from ks+r-1 on; knot vectors = normalised
   (tc.U[0:kspan] + [param]) and ((p+1) x [param] + tc.U[kspan:]); both knot vectors have the length
   degree + size + 1 (knotvector.check passed) *)
Theorem C07_split_structure : forall tol (c c1 c2 : @curve R) param,
  split_curve Rops tol c param = Ok (c1, c2) ->
  let p := c_p c in
  let r := (p - find_multiplicity Rops tol param (c_U c))%nat in
  let ks := split_ks Rops p (c_U c) (length (c_P c)) param in
  let tc := fst (insert_knot_curve Rops tol false c [Some param] [Z.of_nat r]) in
  let kspan := S (find_span_linear Rops p (c_U tc) (length (c_P tc)) param) in
  c_p c1 = p /\ c_p c2 = p /\
  c_P c1 = firstn (ks + r) (c_P tc) /\ c_P c2 = skipn (ks + r - 1) (c_P tc) /\
  normalize Rops (firstn kspan (c_U tc) ++ [param]) = Ok (c_U c1) /\
  normalize Rops (repeat param (S p) ++ skipn kspan (c_U tc)) = Ok (c_U c2) /\
  length (c_U c1) = S (p + length (c_P c1)) /\ length (c_U c2) = S (p + length (c_P c2)).
Proof. intros tol c c1 c2 param H. exact (split_curve_structure tol c c1 c2 param H). Qed.
Print Assumptions C07_split_structure.

(* [G] sizes add up to (refined size + 1) and the two pieces share the junction control point *)
Theorem C07_split_junction_shared : forall tol (c c1 c2 : @curve R) param,
  split_curve Rops tol c param = Ok (c1, c2) ->
  let p := c_p c in
  let r := (p - find_multiplicity Rops tol param (c_U c))%nat in
  let ks := split_ks Rops p (c_U c) (length (c_P c)) param in
  let tc := fst (insert_knot_curve Rops tol false c [Some param] [Z.of_nat r]) in
  (1 <= ks + r <= length (c_P tc))%nat ->
  (length (c_P c1) + length (c_P c2) = S (length (c_P tc)))%nat /\
  last (c_P c1) [] = nth 0 (c_P c2) [] /\ last (c_P c1) [] = nth (ks + r - 1) (c_P tc) [].
Proof. intros tol c c1 c2 param H. exact (split_curve_junction tol c c1 c2 param H). Qed.
Print Assumptions C07_split_junction_shared.

(* [G] the new ends are clamped: the right piece starts with p+1 zeros; the left piece ends at 1
   (when the parameter is not the first knot of the refined vector) *)
Theorem C07_split_new_ends_clamped : forall tol (c c1 c2 : @curve R) param,
  split_curve Rops tol c param = Ok (c1, c2) ->
  let p := c_p c in
  let r := (p - find_multiplicity Rops tol param (c_U c))%nat in
  let tc := fst (insert_knot_curve Rops tol false c [Some param] [Z.of_nat r]) in
  firstn (S p) (c_U c2) = repeat 0%R (S p) /\
  (nth 0 (c_U tc) 0%R <> param -> (1 <= length (c_U tc))%nat -> last (c_U c1) 0%R = 1%R).
Proof. intros tol c c1 c2 param H. exact (split_curve_new_ends tol c c1 c2 param H). Qed.
Print Assumptions C07_split_new_ends_clamped.

(* [G] decomposition = chain of splits at the first interior knot of what is left, pieces in order; the last piece
   has no interior knot; all pieces keep the degree.  (The model is functional: the input record is not changed.) *)
Theorem C07_decompose_is_split_chain : forall tol (c : @curve R) l,
  decompose_curve Rops tol c = Ok l ->
  split_chain tol c l /\ l <> [] /\
  (exists cl, last l c = cl /\ interior_knots (c_p cl) (c_U cl) = []) /\
  Forall (fun x => c_p x = c_p c) l.
Proof.
  intros tol c l H. apply decompose_curve_is_split_chain in H.
  split; [exact H|]. split; [eapply split_chain_nonempty; eauto|].
  split; [eapply split_chain_last; eauto|eapply split_chain_degrees; eauto].
Qed.
Print Assumptions C07_decompose_is_split_chain.

(* [G] (exact knot comparison, tol = 0) the step of decompose_curve: for every curve with a valid, sorted knot vector
   clamped at the start whose first interior knot U[p+1] has multiplicity e - p <= p (copies at p+1..e, strictly larger
   knot after them), splitting at U[p+1] is NOT rejected, the left piece is a Bezier piece: degree p, p+1 control points,
   knot vector = p+1 zeros followed by p+1 ones; the right piece again has a knot vector of the right length.
   All degrees, all multiplicities 1..p (incl. exactly p, where no knot is inserted), all sizes. *)
Theorem C07_decompose_step_left_piece_is_bezier : forall (c : @curve R) (e : nat),
  let p := c_p c in let U := c_U c in let knot := knR U (S p) in
  (1 <= p)%nat -> length U = S (p + length (c_P c)) -> sortedR U ->
  (forall i, (i <= p)%nat -> knR U i = knR U 0) ->
  (S p <= e <= 2 * p)%nat -> (e < length (c_P c))%nat ->
  (forall i, (S p <= i <= e)%nat -> knR U i = knot) ->
  (knR U 0 < knot)%R -> (knot < knR U (S e))%R ->
  exists c1 c2, split_curve Rops 0%R c knot = Ok (c1, c2) /\
    c_p c1 = p /\ c_U c1 = repeat 0%R (S p) ++ repeat 1%R (S p) /\ length (c_P c1) = S p /\
    c_p c2 = p /\ length (c_U c2) = S (p + length (c_P c2)).
Proof. exact decompose_step_bezier. Qed.
Print Assumptions C07_decompose_step_left_piece_is_bezier.

(* ---- full statements that are NOT proved in general (tied by the exact oracle + correspondence only) ----
   decompose_count: number of pieces = number of distinct interior knot values + 1, every piece is a Bezier piece
   (knot vector = p+1 equal knots followed by p+1 equal knots);
   pieces_coincide: every piece evaluates to the original under the affine map of its domain
   (consequence of C04's insertion theorem plus window locality). *)
Definition is_bezier_kv (p : nat) (U : list R) : Prop :=
  exists a b, (a < b)%R /\ U = repeat a (S p) ++ repeat b (S p).
Definition C07_decompose_count_full : Prop :=
  forall tol (c : @curve R) l ds,
  sortedR (c_U c) -> length (c_U c) = S (c_p c + length (c_P c)) ->
  is_bezier_kv (c_p c) (firstn (S (c_p c)) (c_U c) ++ skipn (length (c_U c) - S (c_p c)) (c_U c)) ->
  NoDup ds -> (forall x, In x ds <-> In x (interior_knots (c_p c) (c_U c))) ->
  decompose_curve Rops tol c = Ok l ->
  length l = S (length ds) /\ Forall (fun x => is_bezier_kv (c_p c) (c_U x)) l.

(* ---- non-vacuity / computed instances on the executable model (Qops): a cubic rational-free curve with interior
        knots 1/4 (simple) and 1/2 (double) ---- *)
Definition exC : @curve Q :=
  mkC 3 [0;0;0;0;1#4;1#2;1#2;1;1;1;1]%Q [[0;0];[1;2];[3;1];[4;4];[6;0];[7;3];[9;1]]%Q.
Definition bez3 : list Q := [0;0;0;0;1;1;1;1]%Q.

Example C07_split_rejected_at_ends_instance :
  split_curve Qops (1#10000000)%Q exC 0%Q = Rejected /\ split_curve Qops (1#10000000)%Q exC 1%Q = Rejected.
Proof. split; vm_compute; reflexivity. Qed.

(* split at 3/10 (inside a span) and at 1/2 (double knot): two pieces, shared junction point, sizes, clamped knot vectors *)
Example C07_split_instance :
  match split_curve Qops (1#10000000)%Q exC (3#10)%Q, split_curve Qops (1#10000000)%Q exC (1#2)%Q with
  | Ok (a, b), Ok (a', b') =>
      (length (c_P a) + length (c_P b) = length (c_P exC) + 3 + 1)%nat /\ eqLQ (last (c_P a) []) (nth 0 (c_P b) []) = true /\
      eqLQ (firstn 4 (c_U b)) [0;0;0;0]%Q = true /\ eqLQ (skipn (length (c_U a) - 4) (c_U a)) [1;1;1;1]%Q = true /\
      (length (c_P a') + length (c_P b') = length (c_P exC) + 1 + 1)%nat /\ eqLQ (last (c_P a') []) (nth 0 (c_P b') []) = true
  | _, _ => False
  end.
Proof. vm_compute. repeat split; congruence. Qed.

(* decomposition: 3 = (2 distinct interior knots + 1) pieces, all Bezier (instance of C07_decompose_count_full) *)
Example C07_decompose_instance :
  match decompose_curve Qops (1#10000000)%Q exC with
  | Ok l => length l = 3%nat /\ forallb (fun x => andb (eqLQ (c_U x) bez3) (Nat.eqb (length (c_P x)) 4)) l = true
  | _ => False
  end.
Proof. vm_compute. split; reflexivity. Qed.

(* non-vacuity of C07_decompose_step_left_piece_is_bezier on exC: p = 3, first interior knot 1/4 at index 4 = e (simple);
   and for the remainder after that split the knot 1/2 is double (e = 5): the hypotheses hold and the computed split agrees *)
Example C07_decompose_step_hypotheses_satisfiable :
  let U := c_U exC in
  (1 <= 3)%nat /\ length U = S (3 + length (c_P exC)) /\ (S 3 <= 4 <= 2 * 3)%nat /\ (4 < length (c_P exC))%nat /\
  (kn Qops U 0 < kn Qops U 4)%Q /\ (kn Qops U 4 < kn Qops U 5)%Q /\
  match split_curve Qops 0%Q exC (kn Qops U 4) with
  | Ok (a, b) => eqLQ (c_U a) bez3 = true /\ length (c_P a) = 4%nat /\ length (c_U b) = S (3 + length (c_P b))
  | _ => False
  end.
Proof. cbv zeta. repeat split; try (vm_compute; congruence); try (cbn; lia). Qed.

(* ====================== COINCIDENCE OF THE PIECES, DECOMPOSITION COUNT (round 2, Proofs/Split{Local,Coincide,Count,Surf}.v) ====================== *)
Open Scope R_scope.
(* [G] locality at a knot of full multiplicity (spec level) *)
Theorem C07_N_locality_full_multiplicity : forall (U : nat -> R) (m p : nat) (t : R),
  (forall i, U i <= U (S i)) -> (forall j, (m < j <= m + p)%nat -> U j = t) -> U m <= t -> t <= U (m + p + 1)%nat ->
  (forall u, u < t ->
     (forall i, (m < i)%nat -> N U p i u = 0) /\
     (forall V : nat -> R, (forall i, V i <= V (S i)) -> (forall j, (j <= m + p)%nat -> V j = U j) ->
        (forall j, (m + p < j)%nat -> t <= V j) -> forall i, N U p i u = N V p i u)) /\
  (forall u, t <= u ->
     (forall i, (i < m)%nat -> N U p i u = 0) /\
     (forall W : nat -> R, (forall i, W i <= W (S i)) -> (forall j, (m < j)%nat -> W j = U j) ->
        (forall j, (j <= m)%nat -> W j <= t) -> forall i, (m <= i)%nat -> N U p i u = N W p i u)).
Proof. exact N_locality_full_multiplicity. Qed.
Print Assumptions C07_N_locality_full_multiplicity.

(* [G] an interior split is never rejected.  split_geom_hyps tol c t :=
     sortedR U /\ p < n /\ length U = n + p + 1 /\ U_p < t < U_n /\
     (forall i, i < length U -> |t - U_i| <= tol -> U_i = t) /\ find_multiplicity tol t U <= p *)
Theorem C07_split_curve_succeeds : forall tol (c : @curve R) t, split_geom_hyps tol c t ->
  split_curve Rops tol c t = Ok (split_left tol c t, split_right tol c t).
Proof. exact split_curve_succeeds. Qed.
Print Assumptions C07_split_curve_succeeds.

(* [G] split_pieces_coincide (split_ok_hyps = split_geom_hyps + all control points have dim coordinates):
   any degree, t inside a span or on a knot of multiplicity s <= p, every coordinate *)
Theorem C07_split_pieces_coincide : forall tol (c : @curve R) t dim, split_ok_hyps tol c t dim ->
  exists c1 c2, split_curve Rops tol c t = Ok (c1, c2) /\ c_p c1 = c_p c /\ c_p c2 = c_p c /\
    (forall cc x, (cc < dim)%nat -> x < t ->
       curve_pt (c_p c1) (c_U c1) (c_P c1) cc ((x - knR (c_U c) 0) / (t - knR (c_U c) 0)) = curve_pt (c_p c) (c_U c) (c_P c) cc x) /\
    (forall cc x, (cc < dim)%nat -> t <= x ->
       curve_pt (c_p c2) (c_U c2) (c_P c2) cc ((x - t) / (knR (c_U c) (length (c_U c) - 1) - t)) = curve_pt (c_p c) (c_U c) (c_P c) cc x).
Proof. exact split_pieces_coincide. Qed.
Print Assumptions C07_split_pieces_coincide.

(* [G] the same for clamped curves in the pieces' own parameters (sigma in [0,1) / [0,1]) *)
Theorem C07_split_pieces_coincide_clamped : forall tol (c : @curve R) t dim, split_ok_hyps tol c t dim ->
  knR (c_U c) 0 = knR (c_U c) (c_p c) -> knR (c_U c) (length (c_U c) - 1) = knR (c_U c) (length (c_P c)) ->
  exists c1 c2, split_curve Rops tol c t = Ok (c1, c2) /\
    (forall cc sigma, (cc < dim)%nat -> sigma < 1 ->
       curve_pt (c_p c1) (c_U c1) (c_P c1) cc sigma =
       curve_pt (c_p c) (c_U c) (c_P c) cc (knR (c_U c) (c_p c) + sigma * (t - knR (c_U c) (c_p c)))) /\
    (forall cc sigma, (cc < dim)%nat -> 0 <= sigma ->
       curve_pt (c_p c2) (c_U c2) (c_P c2) cc sigma =
       curve_pt (c_p c) (c_U c) (c_P c) cc (t + sigma * (knR (c_U c) (length (c_P c)) - t))).
Proof. exact split_pieces_coincide_clamped. Qed.
Print Assumptions C07_split_pieces_coincide_clamped.

(* [G] decompose_count = C07_decompose_count_full + (degree >= 1, interior multiplicities <= p, separating tolerance);
   knots_separated tol U := 0 <= tol /\ forall i j < length U, |U_i - U_j| <= tol * max 1 (U_last - U_0) -> U_i = U_j
   (tol = 0: always; geomdl: normalised knot vectors whose distinct knots differ by more than the tolerance) *)
Theorem C07_decompose_count : forall tol (c : @curve R) l ds,
  sortedR (c_U c) -> length (c_U c) = S (c_p c + length (c_P c)) ->
  is_bezier_kv (c_p c) (firstn (S (c_p c)) (c_U c) ++ skipn (length (c_U c) - S (c_p c)) (c_U c)) ->
  NoDup ds -> (forall x, In x ds <-> In x (interior_knots (c_p c) (c_U c))) ->
  (1 <= c_p c)%nat -> (forall i, (1 <= i < length (c_P c))%nat -> (knR (c_U c) i < knR (c_U c) (i + c_p c))%R) ->
  knots_separated tol (c_U c) ->
  decompose_curve Rops tol c = Ok l ->
  length l = S (length ds) /\
  Forall (fun x => c_p x = c_p c /\ is_bezier_kv (c_p c) (c_U x) /\ length (c_P x) = S (c_p c)) l.
Proof. exact decompose_count. Qed.
Print Assumptions C07_decompose_count.

(* the statement without those three hypotheses is false for the model (witness: degree 0, knots [0;1/2;1]) *)
Theorem C07_decompose_count_full_refuted : ~ C07_decompose_count_full.
Proof. exact decompose_count_unrestricted_refuted. Qed.
Print Assumptions C07_decompose_count_full_refuted.

(* [G] the decomposition is never rejected / never runs out of fuel under the invariant *)
Theorem C07_decompose_curve_succeeds : forall tol (c : @curve R), dec_valid tol c -> exists l, decompose_curve Rops tol c = Ok l.
Proof. exact decompose_curve_succeeds. Qed.
Print Assumptions C07_decompose_curve_succeeds.
(* dec_valid tol c follows from the hypotheses of C07_decompose_count: dec_valid_of_ends *)

(* [G] pieces in order, each coinciding with the original on its interval:
   breakpoints c = U_0 :: dedup (interior knots) ++ [U_last]  (strictly increasing),
   piece j on [b_j, b_{j+1}) under the affine map of the piece's own domain (first .. last knot of the piece) *)
Theorem C07_decompose_pieces_coincide : forall tol (c : @curve R) l dim,
  sortedR (c_U c) -> length (c_U c) = S (c_p c + length (c_P c)) ->
  is_bezier_kv (c_p c) (firstn (S (c_p c)) (c_U c) ++ skipn (length (c_U c) - S (c_p c)) (c_U c)) ->
  (1 <= c_p c)%nat -> (forall i, (1 <= i < length (c_P c))%nat -> (knR (c_U c) i < knR (c_U c) (i + c_p c))%R) ->
  knots_separated tol (c_U c) ->
  (forall i, (i < length (c_P c))%nat -> length (getp (c_P c) i) = dim) ->
  decompose_curve Rops tol c = Ok l ->
  length (breakpoints c) = S (length l) /\ pieces_coincide_on c l dim.
Proof. exact decompose_pieces_coincide. Qed.
Print Assumptions C07_decompose_pieces_coincide.

(* [G] surfaces, both directions (dir_split_hyps = split_geom_hyps on (degree, knot vector, size) of the split direction;
   dir_keep_hyps q V nv := sortedR V /\ length V = S (q + nv) /\ V_0 < V_last for the other direction, whose knot vector
   is normalised by the setter of the new surface as well) *)
Theorem C07_split_surface_u_coincide :
  forall (tol : R) (g : InsertKnot.surf) (t : R) (dim : nat),
       dir_split_hyps tol (InsertKnot.s_pu g) (InsertKnot.s_Uu g) (InsertKnot.s_su g) t ->
       dir_keep_hyps (InsertKnot.s_pv g) (InsertKnot.s_Uv g) (InsertKnot.s_sv g) ->
       (forall i : nat,
        (i < InsertKnot.s_sv g * InsertKnot.s_su g)%nat -> length (KnotIns.getp (InsertKnot.s_P g) i) = dim) ->
       exists g1 g2 : InsertKnot.surf,
         split_surface_u Rops tol g t = Ok (g1, g2) /\
         (InsertKnot.s_pu g1 = InsertKnot.s_pu g /\
          InsertKnot.s_pv g1 = InsertKnot.s_pv g /\
          InsertKnot.s_pu g2 = InsertKnot.s_pu g /\
          InsertKnot.s_pv g2 = InsertKnot.s_pv g /\
          InsertKnot.s_su g1 = ssize_left tol (InsertKnot.s_pu g) (InsertKnot.s_Uu g) (InsertKnot.s_su g) t /\
          InsertKnot.s_su g2 = ssize_right tol (InsertKnot.s_pu g) (InsertKnot.s_Uu g) (InsertKnot.s_su g) t /\
          InsertKnot.s_sv g1 = InsertKnot.s_sv g /\ InsertKnot.s_sv g2 = InsertKnot.s_sv g) /\
         (forall (c : nat) (x y : R),
          (c < dim)%nat ->
          x < t ->
          InsertDirR.surf_pt g1 c ((x - kn Rops (InsertKnot.s_Uu g) 0) / (t - kn Rops (InsertKnot.s_Uu g) 0))
            ((y - kn Rops (InsertKnot.s_Uv g) 0) /
             (kn Rops (InsertKnot.s_Uv g) (InsertKnot.s_pv g + InsertKnot.s_sv g) - kn Rops (InsertKnot.s_Uv g) 0)) =
          InsertDirR.surf_pt g c x y) /\
         (forall (c : nat) (x y : R),
          (c < dim)%nat ->
          t <= x ->
          InsertDirR.surf_pt g2 c ((x - t) / (kn Rops (InsertKnot.s_Uu g) (InsertKnot.s_su g + InsertKnot.s_pu g) - t))
            ((y - kn Rops (InsertKnot.s_Uv g) 0) /
             (kn Rops (InsertKnot.s_Uv g) (InsertKnot.s_pv g + InsertKnot.s_sv g) - kn Rops (InsertKnot.s_Uv g) 0)) =
          InsertDirR.surf_pt g c x y).
Proof. exact split_surface_u_coincide. Qed.
Print Assumptions C07_split_surface_u_coincide.

Theorem C07_split_surface_v_coincide :
  forall (tol : R) (g : InsertKnot.surf) (t : R) (dim : nat),
       dir_split_hyps tol (InsertKnot.s_pv g) (InsertKnot.s_Uv g) (InsertKnot.s_sv g) t ->
       dir_keep_hyps (InsertKnot.s_pu g) (InsertKnot.s_Uu g) (InsertKnot.s_su g) ->
       (0 < InsertKnot.s_su g)%nat ->
       (forall i : nat,
        (i < InsertKnot.s_sv g * InsertKnot.s_su g)%nat -> length (KnotIns.getp (InsertKnot.s_P g) i) = dim) ->
       exists g1 g2 : InsertKnot.surf,
         split_surface_v Rops tol g t = Ok (g1, g2) /\
         (InsertKnot.s_pu g1 = InsertKnot.s_pu g /\
          InsertKnot.s_pv g1 = InsertKnot.s_pv g /\
          InsertKnot.s_pu g2 = InsertKnot.s_pu g /\
          InsertKnot.s_pv g2 = InsertKnot.s_pv g /\
          InsertKnot.s_sv g1 = ssize_left tol (InsertKnot.s_pv g) (InsertKnot.s_Uv g) (InsertKnot.s_sv g) t /\
          InsertKnot.s_sv g2 = ssize_right tol (InsertKnot.s_pv g) (InsertKnot.s_Uv g) (InsertKnot.s_sv g) t /\
          InsertKnot.s_su g1 = InsertKnot.s_su g /\ InsertKnot.s_su g2 = InsertKnot.s_su g) /\
         (forall (c : nat) (x y : R),
          (c < dim)%nat ->
          y < t ->
          InsertDirR.surf_pt g1 c
            ((x - kn Rops (InsertKnot.s_Uu g) 0) /
             (kn Rops (InsertKnot.s_Uu g) (InsertKnot.s_pu g + InsertKnot.s_su g) - kn Rops (InsertKnot.s_Uu g) 0))
            ((y - kn Rops (InsertKnot.s_Uv g) 0) / (t - kn Rops (InsertKnot.s_Uv g) 0)) = InsertDirR.surf_pt g c x y) /\
         (forall (c : nat) (x y : R),
          (c < dim)%nat ->
          t <= y ->
          InsertDirR.surf_pt g2 c
            ((x - kn Rops (InsertKnot.s_Uu g) 0) /
             (kn Rops (InsertKnot.s_Uu g) (InsertKnot.s_pu g + InsertKnot.s_su g) - kn Rops (InsertKnot.s_Uu g) 0))
            ((y - t) / (kn Rops (InsertKnot.s_Uv g) (InsertKnot.s_sv g + InsertKnot.s_pv g) - t)) =
          InsertDirR.surf_pt g c x y).
Proof. exact split_surface_v_coincide. Qed.
Print Assumptions C07_split_surface_v_coincide.

(* ====================== round 2 (Proofs/SplitSurfDecompose.v): decomposition of surfaces in u, v and uv ====================== *)
(* [G] decompose_surface(decompose_dir='u'): never rejected; one patch per non-empty u-knot interval, in order; every patch
   Bezier in u (u_patch_shape), v direction untouched up to the setter's normalisation; patch j coincides with the original
   on [b_j, b_{j+1}) x (all v) under the affine maps of its own domain (u_strips_coincide).
   dir_dec_hyps tol p U n = the hypotheses of C07_decompose_count on (p, U, n) *)
Theorem C07_decompose_surface_u : forall tol (g : @surf R) dim,
  dir_dec_hyps tol (s_pu g) (s_Uu g) (s_su g) -> dir_keep_hyps (s_pv g) (s_Uv g) (s_sv g) ->
  (forall i, (i < s_sv g * s_su g)%nat -> length (getp (s_P g) i) = dim) ->
  exists l, decompose_surface Rops tol 0 g = Ok l /\
    length l = S (length (dedup (interior_knots (s_pu g) (s_Uu g)))) /\
    Forall (u_patch_shape dim g) l /\ u_strips_coincide dim g l.
Proof. exact decompose_surface_u. Qed.
Print Assumptions C07_decompose_surface_u.

(* [G] the same for decompose_dir='v' *)
Theorem C07_decompose_surface_v : forall tol (g : @surf R) dim,
  dir_dec_hyps tol (s_pv g) (s_Uv g) (s_sv g) -> dir_keep_hyps (s_pu g) (s_Uu g) (s_su g) -> (0 < s_su g)%nat ->
  (forall i, (i < s_sv g * s_su g)%nat -> length (getp (s_P g) i) = dim) ->
  exists l, decompose_surface Rops tol 1 g = Ok l /\
    length l = S (length (dedup (interior_knots (s_pv g) (s_Uv g)))) /\
    Forall (v_patch_shape dim g) l /\ v_strips_coincide dim g l.
Proof. exact decompose_surface_v. Qed.
Print Assumptions C07_decompose_surface_v.

(* [G] decompose_dir='uv' (the default): one patch per pair of non-empty knot intervals, ordered u outer / v inner
   (patch j + nv * i <-> [bu_i, bu_{i+1}) x [bv_j, bv_{j+1})), Bezier in both directions, coinciding with the original on
   its rectangle *)
Theorem C07_decompose_surface_uv : forall tol (g : @surf R) dim,
  dir_dec_hyps tol (s_pu g) (s_Uu g) (s_su g) -> dir_dec_hyps tol (s_pv g) (s_Uv g) (s_sv g) ->
  (forall i, (i < s_sv g * s_su g)%nat -> length (getp (s_P g) i) = dim) ->
  exists l, decompose_surface Rops tol 2 g = Ok l /\
    length l = (S (length (dedup (interior_knots (s_pu g) (s_Uu g)))) *
                S (length (dedup (interior_knots (s_pv g) (s_Uv g)))))%nat /\
    Forall (uv_patch_shape dim g) l /\ uv_patches_coincide dim g l.
Proof. exact decompose_surface_uv. Qed.
Print Assumptions C07_decompose_surface_uv.

(* [G] the counts in the form of C07_decompose_count *)
Theorem C07_decompose_surface_count : forall tol (g : @surf R) dim dsu dsv,
  dir_dec_hyps tol (s_pu g) (s_Uu g) (s_su g) -> dir_dec_hyps tol (s_pv g) (s_Uv g) (s_sv g) ->
  (forall i, (i < s_sv g * s_su g)%nat -> length (getp (s_P g) i) = dim) ->
  NoDup dsu -> (forall x, In x dsu <-> In x (interior_knots (s_pu g) (s_Uu g))) ->
  NoDup dsv -> (forall x, In x dsv <-> In x (interior_knots (s_pv g) (s_Uv g))) ->
  exists lu lv luv,
    decompose_surface Rops tol 0 g = Ok lu /\ length lu = S (length dsu) /\
    decompose_surface Rops tol 1 g = Ok lv /\ length lv = S (length dsv) /\
    decompose_surface Rops tol 2 g = Ok luv /\ length luv = (S (length dsu) * S (length dsv))%nat.
Proof. exact decompose_surface_count. Qed.
Print Assumptions C07_decompose_surface_count.

(* the hypotheses are satisfiable: bilinear 3 x 2 surface, u-knots 0 0 1 2 2, v-knots 0 0 3 3, tol = 0 *)
Example C07_decompose_surface_hyps_satisfiable :
  dir_dec_hyps 0 (s_pu exS) (s_Uu exS) (s_su exS) /\ dir_dec_hyps 0 (s_pv exS) (s_Uv exS) (s_sv exS) /\
  (forall i, (i < s_sv exS * s_su exS)%nat -> length (getp (s_P exS) i) = 1%nat) /\
  interior_knots (s_pu exS) (s_Uu exS) = [1].
Proof. exact decompose_surface_hyps_satisfiable. Qed.
