(* Comparison helpers used by generated cases_*.v files of the correspondence check.
   Implementation outputs arrive as integers scaled by 10^12 (floats) or exactly (ints/bools). *)
From Coq Require Import List QArith ZArith Bool Qabs.
From NV Require Import Scalar.Ops Model.Common.
Import ListNotations.

Definition scaleQ : Q := inject_Z (10 ^ 12)%Z.
Definition tolQ : Q := inject_Z 1000%Z.
Definition Qmax1 (q : Q) : Q := if Qle_bool 1 (Qabs q) then Qabs q else 1.
(* |q*1e12 - z| <= 1e3 * max(1,|q|)   i.e. 1e-9 absolute / relative *)
Definition closeQ (q : Q) (z : Z) : bool :=
  Qle_bool (Qabs (q * scaleQ - inject_Z z)) (tolQ * Qmax1 q).
(* looser: 1e-6 *)
Definition closeQ6 (q : Q) (z : Z) : bool :=
  Qle_bool (Qabs (q * scaleQ - inject_Z z)) (inject_Z 1000000 * Qmax1 q).
Fixpoint all2 {A B} (f : A -> B -> bool) (a : list A) (b : list B) : bool :=
  match a, b with
  | [], [] => true
  | x :: a', y :: b' => andb (f x y) (all2 f a' b')
  | _, _ => false
  end.
Definition closeL := all2 closeQ.
Definition closeLL := all2 closeL.
Definition closeLLL := all2 closeLL.
Definition eqLnat := all2 Nat.eqb.
Definition eqLLnat := all2 eqLnat.
Definition eqLZ := all2 Z.eqb.
Definition eqLbool := all2 Bool.eqb.
Definition eqQ (a b : Q) : bool := Qeq_bool a b.
Definition eqLQ := all2 eqQ.
Definition eqLLQ := all2 eqLQ.

Definition res_cmp {A B} (f : A -> B -> bool) (m : res A) (i : res B) : bool :=
  match m, i with
  | Ok a, Ok b => f a b
  | Rejected, Rejected => true
  (* model Crash = the implementation fails in an uncontrolled way (IndexError, ZeroDivisionError, ...) on this input, which is
     therefore outside every property's quantifier: an implementation that now rejects it cleanly, or handles it, is not a
     disagreement.  The converse (model Ok / Rejected, implementation crashes) is one. *)
  | Crash, _ => true
  | _, _ => false
  end.
Definition opt_cmp {A B} (f : A -> B -> bool) (m : option A) (i : option B) : bool :=
  match m, i with Some a, Some b => f a b | None, None => true | _, _ => false end.

Fixpoint bad_from (i : nat) (l : list bool) : list nat :=
  match l with [] => [] | b :: r => if b then bad_from (S i) r else i :: bad_from (S i) r end.
Definition bad_idx (l : list bool) : list nat := bad_from 0 l.
