(* Comparison helpers for the C12 correspondence: the world model of Model/Obj.v run at Qops with the executable view
   functions of Model/ObjRun.v, compared step by step with the implementation's outcomes and observations. *)
From Coq Require Import List QArith ZArith Bool.
From NV Require Import Scalar.Ops Model.Common Model.Weights Model.Equal Model.Obj Model.ObjRun Run.Harness.
Import ListNotations.

Definition tol8Q : Q := 1 # 10000000.
Definition evQ := ev_of Qops tol8Q.
Definition bboxQ := bbox_of Qops.
Definition tessQ := tess_of Qops.
Definition wstepQ := wstep Qops evQ bboxQ tessQ.
Definition observeQ := observe Qops evQ bboxQ tessQ.

Definition itess : Type := (list (list Z) * list (list nat))%type.
Definition cmp_tess (m : list (list Q) * list (list nat)) (i : itess) : bool :=
  andb (closeLL (fst m) (fst i)) (eqLLnat (snd m) (snd i)).
Definition cmp_box (m : list Q * list Q) (i : list Z * list Z) : bool := andb (closeL (fst m) (fst i)) (closeL (snd m) (snd i)).

Inductive iout :=
| IoNone | IoPts (l : list (list Z)) | IoWts (l : list Z) | IoGrid (g : list (list (list Z)))
| IoBox (b : list Z * list Z) | IoTess (t : itess) | IoNoWts.
Definition cmp_out (m : @out Q) (i : iout) : bool :=
  match m, i with
  | ONone, IoNone => true
  | OPts a, IoPts b => closeLL a b
  | OWts a, IoWts b => closeL a b
  | OGrid a, IoGrid b => closeLLL a b
  | OBox a, IoBox b => cmp_box a b
  | OTess a, IoTess b => cmp_tess a b
  | ONoWts, IoNoWts => true
  | _, _ => false
  end.

(* observation of one geometry by the harness; io_cp2d = None means "exactly the [u][v] reshape of io_cpw" *)
Record iobs := mkIobs {
  io_with_eval : bool;
  io_cpw : list (list Z); io_cpts : list (list Z); io_wts : list Z; io_cp2d : option (list (list (list Z)));
  io_bbox : list Z * list Z; io_eval : list (list Z); io_tess : itess; io_tess2 : itess;
  io_deg : list nat; io_size : list nat; io_kv : list (list Z); io_delta : list Z; io_samples : list nat;
  io_ids_same : list bool }.     (* for the five definition slots: same Python object as before the operation *)

Definition cmp_obs (o : @obj Q) (i : iobs) : bool :=
  let m := observeQ (io_with_eval i) o in
  let d := o_def o in
  andb (closeLL (ob_cpw m) (io_cpw i))
 (andb (closeLL (ob_cpts m) (io_cpts i))
 (andb (closeL (ob_wts m) (io_wts i))
 (andb (match io_cp2d i with
        | Some g => closeLLL (ob_cp2d m) g
        | None => if Nat.eqb (d_pdim d) 2 then closeLLL (ob_cp2d m) (reshape2d (nth 0 (d_size d) 0%nat) (nth 1 (d_size d) 0%nat) (io_cpw i))
                  else match ob_cp2d m with [] => true | _ => false end
        end)
 (andb (cmp_box (ob_bbox m) (io_bbox i))
 (andb (closeLL (ob_eval m) (io_eval i))
 (andb (cmp_tess (ob_tess m) (io_tess i))
 (andb (cmp_tess (ob_tess2 m) (io_tess2 i))
 (andb (eqLnat (d_deg d) (io_deg i))
 (andb (eqLnat (d_size d) (io_size i))
 (andb (closeLL (d_kv d) (io_kv i))
 (andb (closeL (d_delta d) (io_delta i))
       (if io_with_eval i then eqLnat (samples Qops d) (io_samples i) else true)))))))))))).

(* which definition slots kept their provenance id *)
Definition ids_same (before after : @obj Q) : list bool := map (fun p => Nat.eqb (fst p) (snd p)) (combine (o_ids before) (o_ids after)).

(* observation of one container: evalpts, bbox, (vertices, faces) *)
Record icobs := mkIcobs { ic_eval : list (list Z); ic_bbox : list Z * list Z; ic_tess : option itess; ic_delta : list Z; ic_elems : list nat }.
Definition cmp_cobs (w : @world Q) (j : nat) (i : icobs) : bool :=
  let c := contr w j in
  let '(w1, e) := c_read_eval Qops evQ w j in
  let '(w2, b) := c_read_bbox Qops bboxQ w1 j in
  andb (closeLL e (ic_eval i))
 (andb (if is_nil (c_elems c) then true else cmp_box b (ic_bbox i))
 (andb (match ic_tess i with Some t => cmp_tess (snd (c_read_tess Qops evQ tessQ w2 j)) t | None => true end)
 (andb (closeL (c_delta c) (ic_delta i)) (eqLnat (c_elems c) (ic_elems i))))).

Record istep := mkIstep {
  is_out : res iout;
  is_geoms : list (nat * iobs);        (* observed geometries (index, observation) *)
  is_conts : list (nat * icobs);
  is_idsame : list (nat * list bool);  (* geometry index, per-slot "same object as before this operation" *)
  is_alldistinct : bool }.             (* all tracked slot objects of all geometries are pairwise distinct Python objects *)

Fixpoint nodupb (l : list nat) : bool :=
  match l with [] => true | x :: r => andb (negb (existsb (Nat.eqb x) r)) (nodupb r) end.
Definition all_ids (w : @world Q) : list nat := flat_map (@o_ids Q) (w_geoms w).

Definition check_step (w w' : @world Q) (r : res (@out Q)) (e : istep) : bool :=
  andb (res_cmp cmp_out r (is_out e))
 (andb (forallb (fun p => cmp_obs (geom w' (fst p)) (snd p)) (is_geoms e))
 (andb (forallb (fun p => cmp_cobs w' (fst p) (snd p)) (is_conts e))
 (andb (forallb (fun p => eqLbool (ids_same (geom w (fst p)) (geom w' (fst p))) (snd p)) (is_idsame e))
       (Bool.eqb (nodupb (all_ids w')) (is_alldistinct e))))).

Fixpoint check_hist (w : @world Q) (ops : list (@wop Q)) (exp : list istep) : bool :=
  match ops, exp with
  | [], [] => true
  | o :: r, e :: re => let '(w', x) := wstepQ w o in andb (check_step w w' x e) (check_hist w' r re)
  | _, _ => false
  end.
Definition world0 : @world Q := mkWorld [] [] 0.
(* index of the first failing step (for reports) *)
Fixpoint first_bad (w : @world Q) (ops : list (@wop Q)) (exp : list istep) (k : nat) : option nat :=
  match ops, exp with
  | o :: r, e :: re => let '(w', x) := wstepQ w o in if check_step w w' x e then first_bad w' r re (S k) else Some k
  | _, _ => None
  end.
