(* Comparison helpers for the C13 correspondence check: shapes with nat labels as points and Q knots. *)
From Coq Require Import List QArith ZArith Bool Arith.
From NV Require Import Scalar.Ops Model.Common Model.Knots Model.Layout Run.Harness.
Import ListNotations.

Definition LC := curve nat Q.
Definition LS := surf nat Q.
Definition LV := vol nat Q.

Definition crv_eqb (a b : LC) : bool :=
  andb (Nat.eqb (c_p a) (c_p b)) (andb (eqLQ (c_U a) (c_U b)) (eqLnat (c_P a) (c_P b))).
Definition surf_eqb (a b : LS) : bool :=
  andb (andb (Nat.eqb (s_pu a) (s_pu b)) (Nat.eqb (s_pv a) (s_pv b)))
  (andb (andb (eqLQ (s_Uu a) (s_Uu b)) (eqLQ (s_Uv a) (s_Uv b)))
  (andb (andb (Nat.eqb (s_su a) (s_su b)) (Nat.eqb (s_sv a) (s_sv b))) (eqLnat (s_P a) (s_P b)))).
Definition vol_eqb (a b : LV) : bool :=
  andb (andb (Nat.eqb (v_pu a) (v_pu b)) (andb (Nat.eqb (v_pv a) (v_pv b)) (Nat.eqb (v_pw a) (v_pw b))))
  (andb (andb (eqLQ (v_Uu a) (v_Uu b)) (andb (eqLQ (v_Uv a) (v_Uv b)) (eqLQ (v_Uw a) (v_Uw b))))
  (andb (andb (Nat.eqb (v_su a) (v_su b)) (andb (Nat.eqb (v_sv a) (v_sv b)) (Nat.eqb (v_sw a) (v_sw b)))) (eqLnat (v_P a) (v_P b)))).
Definition crvs_eqb := all2 crv_eqb.
Definition surfs_eqb := all2 surf_eqb.

(* knotvector.check as the validity parameter of the construct_* models *)
Definition kvokQ (p : nat) (U : list Q) (n : nat) : bool :=
  match check Qops p U n with Ok b => b | _ => false end.

Definition csurf := construct_surface (A:=nat) (Kn:=Q) 0%nat kvokQ.
Definition cvol := construct_volume (A:=nat) (Kn:=Q) 0%nat kvokQ.
Definition swc (n : nat) := sweep_curve (A:=nat) (Kn:=Q) 0%nat kvokQ (fun x => (x + n)%nat).
Definition sws (n : nat) := sweep_surface (A:=nat) (Kn:=Q) 0%nat kvokQ (fun x => (x + n)%nat).

Definition opt_nat_eqb := opt_cmp Nat.eqb.
Definition chk_mgr2 (su sv : nat) (tbl : list nat) (ops : list (nat * nat * nat)) (final : list nat)
    (qs : list (nat * nat)) (gets : list (option nat)) : bool :=
  andb (eqLnat (tab2 su sv (find_index2 su sv)) tbl)
  (andb (eqLnat (mgr_run2 0%nat su sv ops) final)
        (all2 opt_nat_eqb (map (fun q => mgr_get final (find_index2 su sv (fst q) (snd q))) qs) gets)).
Definition chk_mgr3 (su sv sw : nat) (tbl : list nat) (ops : list (nat * nat * nat * nat)) (final : list nat)
    (qs : list (nat * nat * nat)) (gets : list (option nat)) : bool :=
  andb (eqLnat (tab3 su sv sw (find_index3 su sv sw)) tbl)
  (andb (eqLnat (mgr_run3 0%nat su sv sw ops) final)
        (all2 opt_nat_eqb (map (fun q => mgr_get final (find_index3 su sv sw (fst (fst q)) (snd (fst q)) (snd q))) qs) gets)).
Definition set2d_eqb (m : list nat * nat * nat) (P : list nat) (su sv : nat) : bool :=
  match m with (P', su', sv') => andb (eqLnat P' P) (andb (Nat.eqb su' su) (Nat.eqb sv' sv)) end.
