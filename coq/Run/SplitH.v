(* Comparison helpers for the C06 / C07 correspondence families: geometry records of Model/InsertKnot.v
   (as produced by Model/KnotRem.v and Model/Split.v) against implementation snapshots.
   Degrees and sizes are compared exactly, knots and control points at 1e-9. *)
From Coq Require Import List QArith ZArith Bool.
From NV Require Import Scalar.Ops Model.Common Model.KnotIns Model.InsertKnot Run.Harness.
Import ListNotations.

Definition snapC : Type := (nat * list Z * list (list Z))%type.
Definition snapS : Type := (list nat * list Z * list Z * list (list Z))%type.
Definition snapV : Type := (list nat * list Z * list Z * list Z * list (list Z))%type.

Definition cmpC (m : @curve Q) (i : snapC) : bool :=
  let '(p, U, P) := i in
  andb (Nat.eqb (c_p m) p) (andb (closeL (c_U m) U) (closeLL (c_P m) P)).
(* ds = degrees followed by sizes *)
Definition cmpS (m : @surf Q) (i : snapS) : bool :=
  let '(ds, Uu, Uv, P) := i in
  andb (eqLnat [s_pu m; s_pv m; s_su m; s_sv m] ds)
       (andb (closeL (s_Uu m) Uu) (andb (closeL (s_Uv m) Uv) (closeLL (s_P m) P))).
Definition cmpV (m : @vol Q) (i : snapV) : bool :=
  let '(ds, Uu, Uv, Uw, P) := i in
  andb (eqLnat [v_pu m; v_pv m; v_pw m; v_su m; v_sv m; v_sw m] ds)
       (andb (closeL (v_Uu m) Uu) (andb (closeL (v_Uv m) Uv) (andb (closeL (v_Uw m) Uw) (closeLL (v_P m) P)))).

Definition cmpCs (m : res (list (@curve Q))) (i : res (list snapC)) : bool := res_cmp (all2 cmpC) m i.
Definition cmpSs (m : res (list (@surf Q))) (i : res (list snapS)) : bool := res_cmp (all2 cmpS) m i.
Definition pairl {A} (x : A * A) : list A := [fst x; snd x].
Definition cmpC2 (m : res (@curve Q * @curve Q)) (i : res (list snapC)) : bool := res_cmp (fun a b => all2 cmpC (pairl a) b) m i.
Definition cmpS2 (m : res (@surf Q * @surf Q)) (i : res (list snapS)) : bool := res_cmp (fun a b => all2 cmpS (pairl a) b) m i.
