(* Comparison helpers for the generated correspondence cases of C15 / C20 (planar predicates, rays, voxels, meshes). *)
From Coq Require Import List QArith ZArith Bool Qabs.
From NV Require Import Scalar.Ops Model.Common Run.Harness Model.Geom2D.
Import ListNotations.

(* ray.intersect: (t1, t2, status) with floats on the 1e-12 grid and the status enum as its integer code *)
Definition isect_cmp (m : res (Q * Q * rstatus)) (i : res (Z * Z * nat)) : bool :=
  res_cmp (fun a b => let '(t1, t2, s) := a in let '(z1, z2, c) := b in
                      andb (andb (closeQ t1 z1) (closeQ t2 z2)) (Nat.eqb (rstatus_code s) c)) m i.
(* status only *)
Definition isect_status_cmp (m : res (Q * Q * rstatus)) (c : nat) : bool :=
  match m with Ok (_, _, s) => Nat.eqb (rstatus_code s) c | _ => false end.

Definition sgnQ (q : Q) : Z := Z.sgn (Qnum q).
Definition eqLLLQ := all2 eqLLQ.
Definition eqPairLLnat (a b : list (list nat) * list (list nat)) : bool :=
  andb (eqLLnat (fst a) (fst b)) (eqLLnat (snd a) (snd b)).
