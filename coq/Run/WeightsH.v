(* Comparison helpers for the C09 correspondence families (implementation outputs arrive scaled by 10^12). *)
From Coq Require Import List QArith ZArith Bool.
From NV Require Import Scalar.Ops Model.Common Model.Weights Run.Harness.
Import ListNotations.

Definition cmp_sep (m : list (list Q) * list Q) (i : list (list Z) * list Z) : bool :=
  andb (closeLL (fst m) (fst i)) (closeL (snd m) (snd i)).

Inductive ivout := IvNone | IvPts (l : list (list Z)) | IvWts (l : list Z).
Definition cmp_vout (m : @vout Q) (i : ivout) : bool :=
  match m, i with
  | VoNone, IvNone => true
  | VoPts a, IvPts b => closeLL a b
  | VoWts a, IvWts b => closeL a b
  | _, _ => false
  end.
Definition cmp_vouts (m : list (res (@vout Q))) (i : list (res ivout)) : bool := all2 (res_cmp cmp_vout) m i.
(* history check: every outcome and the final homogeneous control points *)
Definition check_views (minlen mindim : nat) (cpw0 : list (list Q)) (ops : list (@vop Q)) (outs : list (res ivout)) (final : list (list Z)) : bool :=
  let '(s, r) := vrun Qops minlen mindim (mkNview cpw0 [] []) ops in
  andb (cmp_vouts r outs) (closeLL (vw_cpw s) final).

Inductive igout := IgNone | IgGrid (g : list (list (list Z))) | IgW (w : list Z).
Definition cmp_gout (m : @gout Q) (i : igout) : bool :=
  match m, i with
  | GoNone, IgNone => true
  | GoGrid a, IgGrid b => closeLLL a b
  | GoW a, IgW b => closeL a b
  | _, _ => false
  end.
Definition check_grid (sx sy z : Q) (ops : list (@gop Q)) (outs : list (res igout)) : bool :=
  all2 (res_cmp cmp_gout) (snd (grun Qops sx sy z (mkG [] [] []) ops)) outs.
