(* Comparison helpers for the C16 / C11 correspondence checks. *)
From Coq Require Import List QArith ZArith Bool Qabs.
From NV Require Import Scalar.Ops Model.Common Run.Harness.
Import ListNotations.

Definition tol9 : Q := 1 # 1000000000.
Definition cmp_lu (a : list (list Q) * list (list Q)) (b : list (list Z) * list (list Z)) : bool :=
  andb (closeLL (fst a) (fst b)) (closeLL (snd a) (snd b)).
(* implementation magnitude (a float, given exactly) against the model's squared norm *)
Definition close_sq (n2 mag : Q) : bool :=
  andb (Qle_bool 0 mag) (Qle_bool (Qabs (mag * mag - n2)) (tol9 * Qmax1 n2)).
(* model: (v, |v|^2); implementation: (unit vector, magnitude) *)
Definition close_normalized (m : list Q * Q) (i : list Q * Q) : bool :=
  andb (close_sq (snd m) (snd i))
       (all2 (fun v o => Qle_bool (Qabs (o * snd i - v)) (tol9 * Qmax1 v)) (fst m) (fst i)).
(* 1e-6 variants for quantities that went through an LU solve of a moderately conditioned system *)
Definition closeL6 := all2 closeQ6.
Definition closeLL6 := all2 closeL6.
Definition closeLLL6 := all2 closeLL6.

(* C11: chord inputs of the model against the squared distances (d^2, or d^4 for the centripetal method) *)
Definition close_chords (centripetal : bool) (sq cds : list Q) : bool :=
  all2 (fun s d => andb (Qle_bool 0 d)
        (let v := if centripetal then d * d * d * d else d * d in Qle_bool (Qabs (v - s)) (tol9 * Qmax1 s))) sq cds.
Definition closeQ8 (q : Q) (z : Z) : bool :=
  Qle_bool (Qabs (q * scaleQ - inject_Z z)) (inject_Z 10000 * Qmax1 q).
Definition closeL8 := all2 closeQ8.
Definition closeLL8 := all2 closeL8.
Definition cmp_fit1 (m : list (list Q) * list Q) (i : list (list Z) * list Z) : bool :=
  andb (closeLL8 (fst m) (fst i)) (closeL (snd m) (snd i)).
Definition cmp_fit2 (m : list (list Q) * list Q * list Q) (i : list (list Z) * list Z * list Z) : bool :=
  andb (closeLL8 (fst (fst m)) (fst (fst i))) (andb (closeL (snd (fst m)) (snd (fst i))) (closeL (snd m) (snd i))).
Definition cmp_pair (m : list Q * list Q) (i : list Z * list Z) : bool := andb (closeL (fst m) (fst i)) (closeL (snd m) (snd i)).
