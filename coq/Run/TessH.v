(* Comparison helpers for the generated correspondence cases of C15 (meshes, containers, exported files). *)
From Coq Require Import List QArith ZArith Bool Qabs.
From NV Require Import Scalar.Ops Model.Common Run.Harness Model.Geom2D Model.Tess.
Import ListNotations.

Definition tri_eqb (a b : tri) : bool :=
  let '(x, y, z) := a in let '(x', y', z') := b in andb (andb (Nat.eqb x x') (Nat.eqb y y')) (Nat.eqb z z').
Definition itri_eqb (a b : nat * tri) : bool := andb (Nat.eqb (fst a) (fst b)) (tri_eqb (snd a) (snd b)).
Definition eq_itris := all2 itri_eqb.
Definition eq_tris := all2 tri_eqb.
Definition iquad_eqb (a b : nat * list nat) : bool := andb (Nat.eqb (fst a) (fst b)) (eqLnat (snd a) (snd b)).
Definition uv_close (m : Q * Q) (i : Z * Z) : bool := andb (closeQ (fst m) (fst i)) (closeQ (snd m) (snd i)).
Definition optnat_eqb (a b : option nat) : bool :=
  match a, b with Some x, Some y => Nat.eqb x y | None, None => true | _, _ => false end.

(* plain triangle mesh: implementation vertices as (point label if known, uv on the 1e-12 grid) *)
Definition plain_cmp (su sv k : nat)
    (m : res (list (nat * (nat * nat)) * list (nat * tri)))
    (i : res (list (option nat * (Z * Z)) * list (nat * tri))) : bool :=
  res_cmp (fun a b =>
    andb (all2 (fun mv iv => andb (match fst iv with Some p => Nat.eqb p (fst mv) | None => true end)
                                  (uv_close (vertex_uv Qops su sv k (snd mv)) (snd iv))) (fst a) (fst b))
         (eq_itris (snd a) (snd b))) m i.

(* trimmed mesh: `known` = the implementation's vertex labels are meaningful (direct tessellator call) *)
Definition trim_cmp (known : bool)
    (m : res (list (option nat * (Q * Q)) * list (nat * tri)))
    (i : res (list (option nat * (Z * Z)) * list (nat * tri))) : bool :=
  res_cmp (fun a b =>
    andb (all2 (fun mv iv => andb (if known then optnat_eqb (fst mv) (fst iv) else true) (uv_close (snd mv) (snd iv)))
               (fst a) (fst b))
         (eq_itris (snd a) (snd b))) m i.

Definition quad_cmp (su sv : nat)
    (m : res (list nat * list (nat * list nat)))
    (i : res (list (nat * (Z * Z)) * list (nat * list nat))) : bool :=
  res_cmp (fun a b =>
    andb (all2 (fun mv iv => andb (Nat.eqb mv (fst iv)) (uv_close (quad_uv Qops su sv mv) (snd iv))) (fst a) (fst b))
         (all2 iquad_eqb (snd a) (snd b))) m i.

Definition container_cmp (m i : list nat * list (nat * tri)) : bool :=
  andb (eqLnat (fst m) (fst i)) (eq_itris (snd m) (snd i)).

(* exported files, parsed back: text formats reproduce the floats exactly, binary STL stores float32 *)
Definition obj_cmp (m i : list (list Q) * list (list nat)) : bool :=
  andb (eqLLQ (fst m) (fst i)) (eqLLnat (snd m) (snd i)).
Definition off_cmp (m i : (nat * nat * nat) * list (list Q) * list (list nat)) : bool :=
  let '(h, v, f) := m in let '(h', v', f') := i in
  let '(a, b, c) := h in let '(a', b', c') := h' in
  andb (andb (andb (Nat.eqb a a') (Nat.eqb b b')) (Nat.eqb c c')) (andb (eqLLQ v v') (eqLLnat f f')).
Definition closeL6 := all2 closeQ6.
Definition stl_cmp (binary : bool) (m : list (list Q * list (list Q))) (i : list (list Z * list (list Z))) : bool :=
  all2 (fun a b => if binary then andb (closeL6 (fst a) (fst b)) (all2 closeL6 (snd a) (snd b))
                   else andb (closeL (fst a) (fst b)) (closeLL (snd a) (snd b))) m i.
