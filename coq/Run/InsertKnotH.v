(* Comparison helpers for the C04 / C05 correspondence families (geometry records of Model/InsertKnot.v
   against implementation snapshots: degrees and sizes exactly, knots and control points at 1e-9). *)
From Coq Require Import List QArith ZArith Bool.
From NV Require Import Scalar.Ops Model.Common Model.KnotIns Model.InsertKnot Run.Harness.
Import ListNotations.

Definition cmp_curve (m : @curve Q) (p : nat) (U : list Z) (P : list (list Z)) : bool :=
  andb (Nat.eqb (c_p m) p) (andb (closeL (c_U m) U) (closeLL (c_P m) P)).
(* ds = degrees followed by sizes *)
Definition cmp_surf (m : @surf Q) (ds : list nat) (Uu Uv : list Z) (P : list (list Z)) : bool :=
  andb (eqLnat [s_pu m; s_pv m; s_su m; s_sv m] ds)
       (andb (closeL (s_Uu m) Uu) (andb (closeL (s_Uv m) Uv) (closeLL (s_P m) P))).
Definition cmp_vol (m : @vol Q) (ds : list nat) (Uu Uv Uw : list Z) (P : list (list Z)) : bool :=
  andb (eqLnat [v_pu m; v_pv m; v_pw m; v_su m; v_sv m; v_sw m] ds)
       (andb (closeL (v_Uu m) Uu) (andb (closeL (v_Uv m) Uv) (andb (closeL (v_Uw m) Uw) (closeLL (v_P m) P)))).
Definition cmp_refine (m : res (list (list Q) * list Q)) (i : res (list (list Z) * list Z)) : bool :=
  res_cmp (fun a b => andb (closeLL (fst a) (fst b)) (closeL (snd a) (snd b))) m i.
Definition okor {A} (r : res A) (d : A) : A := match r with Ok a => a | _ => d end.
Definition isOk {A} (r : res A) : bool := match r with Ok _ => true | _ => false end.
Definition cmp_refine_rows (m : res (list (list (list Q)) * list Q)) (i : res (list (list (list Z)) * list Z)) : bool :=
  res_cmp (fun a b => andb (closeLLL (fst a) (fst b)) (closeL (snd a) (snd b))) m i.
