(* Comparison helpers for the C02 correspondence cases (derivative vectors, unit vectors). *)
From Coq Require Import List QArith ZArith Bool Qabs.
From NV Require Import Scalar.Ops Model.Common Run.Harness.
Import ListNotations.

(* largest |component| of a vector, at least 1 *)
Definition vscaleQ (v : list Q) : Q := fold_left (fun m x => if Qle_bool m (Qabs x) then Qabs x else m) v 1.
(* |q_i * 1e12 - z_i| <= 1e3 * max(1, max_j |q_j|): 1e-9 relative to the size of the vector (a derivative
   vector whose components differ by orders of magnitude carries the rounding error of its largest one) *)
Definition closeV (v : list Q) (zs : list Z) : bool :=
  let s := vscaleQ v in
  all2 (fun q z => Qle_bool (Qabs (q * scaleQ - inject_Z z)) (tolQ * s)) v zs.
Definition closeVV := all2 closeV.
Definition closeVVV := all2 closeVV.

(* model: unnormalised vector d; implementation: unit vector u rendered as u_i*|u_i| (signed squares).
   d_i*|d_i| / (d.d) must agree with u_i*|u_i| *)
Definition close_unit (d : res (list Q)) (zs : list Z) : bool :=
  match d with Ok sq => closeL sq zs | _ => false end.

Definition pair_cmp {A B C D} (f : A -> C -> bool) (g : B -> D -> bool) (m : A * B) (i : C * D) : bool :=
  andb (f (fst m) (fst i)) (g (snd m) (snd i)).
