(* Comparison helpers for the C02 correspondence cases (derivative vectors, unit vectors). *)
From Coq Require Import List QArith ZArith Bool Qabs.
From NV Require Import Scalar.Ops Model.Common Run.Harness.
Import ListNotations.

(* largest |component| of a vector, at least 1 *)
Definition vscaleQ (v : list Q) : Q := fold_left (fun m x => if Qle_bool m (Qabs x) then Qabs x else m) v 1.
(* |q_i * 1e12 - z_i| <= 1e3 * max(1, max_j |q_j|): 1e-9 relative to the size of the vector (a derivative
   vector whose components differ by orders of magnitude carries the rounding error of its largest one) *)
Definition closeV (v : list Q) (zs : list Z) : bool :=
  let s := vscaleQ v in
  all2 (fun q z => Qle_bool (Qabs (q * scaleQ - inject_Z z)) (tolQ * s)) v zs.
Definition closeVV := all2 closeV.
Definition closeVVV := all2 closeVV.

(* Derivative vectors of increasing order: the k-th vector is compared at 1e-9 relative to the largest component of the vectors of
   order <= k (at least 1).  A high derivative that is exactly zero (e.g. order > degree of a rational curve with equal weights) is
   computed by A4.2 / A4.4 as a difference of products of the LOWER derivatives, so its rounding error is relative to those. *)
Definition qmax (a b : Q) : Q := if Qle_bool a b then b else a.
Definition closeVs (s : Q) (v : list Q) (zs : list Z) : bool :=
  all2 (fun q z => Qle_bool (Qabs (q * scaleQ - inject_Z z)) (tolQ * s)) v zs.
Fixpoint closeVV_run (s : Q) (vs : list (list Q)) (zss : list (list Z)) : bool :=
  match vs, zss with
  | [], [] => true
  | v :: vs', z :: zss' => let s' := qmax s (vscaleQ v) in andb (closeVs s' v z) (closeVV_run s' vs' zss')
  | _, _ => false
  end.
Definition closeVVr := closeVV_run 1.
(* SKL[k][l]: relative to the entries [k'][l'] with k' <= k and l' <= l; prev = the bounds of the previous row per column *)
Fixpoint row_run (prev : list Q) (s : Q) (vs : list (list Q)) (zss : list (list Z)) : bool * list Q :=
  match vs, zss with
  | [], [] => (true, [])
  | v :: vs', z :: zss' =>
    let p := match prev with [] => 1 | a :: _ => a end in
    let s' := qmax (qmax s p) (vscaleQ v) in
    let '(b, rest) := row_run (tl prev) s' vs' zss' in
    (andb (closeVs s' v z) b, s' :: rest)
  | _, _ => (false, [])
  end.
Fixpoint closeVVV_run (prev : list Q) (rows : list (list (list Q))) (zrows : list (list (list Z))) : bool :=
  match rows, zrows with
  | [], [] => true
  | r :: rows', z :: zrows' => let '(b, nxt) := row_run prev 1 r z in andb b (closeVVV_run nxt rows' zrows')
  | _, _ => false
  end.
Definition closeVVVr := closeVVV_run [].

(* model: unnormalised vector d; implementation: unit vector u rendered as u_i*|u_i| (signed squares).
   d_i*|d_i| / (d.d) must agree with u_i*|u_i| *)
Definition close_unit (d : res (list Q)) (zs : list Z) : bool :=
  match d with Ok sq => closeL sq zs | _ => false end.

Definition pair_cmp {A B C D} (f : A -> C -> bool) (g : B -> D -> bool) (m : A * B) (i : C * D) : bool :=
  andb (f (fst m) (fst i)) (g (snd m) (snd i)).
