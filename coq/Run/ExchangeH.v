(* Comparison helpers for the C14 correspondence check: the Exchange model at Qops with the identity codec. *)
From Coq Require Import List QArith ZArith Bool Arith Qabs.
From Coq Require Export String.
From NV Require Import Scalar.Ops Model.Common Model.Knots Model.Layout Model.Exchange Run.Harness.
Import ListNotations.
Open Scope string_scope. Open Scope list_scope.

Definition qid (x : Q) : Q := x.
(* |a - b| <= 1e-9 * max(1,|a|) *)
Definition qclose (a b : Q) : bool := Qle_bool (Qabs (a - b)) ((1 # 1000000000) * Qmax1 a).
Definition ql_close := all2 qclose.
Definition qll_close := all2 ql_close.
Definition qlll_close := all2 qll_close.
Definition onat_eqb (a b : option nat) : bool := opt_cmp Nat.eqb a b.

Fixpoint jv_close (a b : jv Q) : bool :=
  match a, b with
  | JNum x, JNum y => qclose x y
  | JInt n, JInt m => Nat.eqb n m
  | JBool x, JBool y => Bool.eqb x y
  | JStr x, JStr y => String.eqb x y
  | JArr l, JArr m =>
    (fix go (l m : list (jv Q)) : bool :=
       match l, m with
       | [], [] => true
       | x :: l', y :: m' => andb (jv_close x y) (go l' m')
       | _, _ => false
       end) l m
  | JObj l, JObj m =>
    (* JSON objects are unordered: same number of members and every member of l has a close member of the same name in m
       (the order in which json.dump writes the keys is not part of any property) *)
    andb (Nat.eqb (length l) (length m))
    ((fix go (l : list (string * jv Q)) : bool :=
       match l with
       | [] => true
       | (k, x) :: l' =>
         andb ((fix find (m : list (string * jv Q)) : bool :=
                  match m with
                  | [] => false
                  | (k', y) :: m' => if String.eqb k k' then jv_close x y else find m'
                  end) m) (go l')
       end) l)
  | _, _ => false
  end.

Definition tok_close (a b : tok Q) : bool :=
  match a, b with TI n, TI m => Nat.eqb n m | TF x, TF y => qclose x y | _, _ => false end.
Definition rows_close := all2 (all2 tok_close).
Definition files_close := all2 rows_close.

Definition QC := crv (T:=Q).
Definition crv_close (a b : crv (T:=Q)) : bool :=
  andb (Bool.eqb (c_rat a) (c_rat b)) (andb (Nat.eqb (c_deg a) (c_deg b)) (andb (ql_close (c_kv a) (c_kv b))
  (andb (qll_close (c_pts a) (c_pts b)) (andb (qclose (c_delta a) (c_delta b)) (onat_eqb (c_rev a) (c_rev b)))))).
Definition ffm_close (a b : ffm (T:=Q)) : bool :=
  andb (qll_close (f_pts a) (f_pts b)) (andb (String.eqb (f_name a) (f_name b)) (onat_eqb (f_rev a) (f_rev b))).
Definition trim_close (a b : trim (T:=Q)) : bool :=
  match a, b with
  | TrC x, TrC y => crv_close x y
  | TrF x, TrF y => ffm_close x y
  | TrM xs r, TrM ys r' => andb (all2 crv_close xs ys) (onat_eqb r r')
  | _, _ => false
  end.
Definition srf_close (a b : srf (T:=Q)) : bool :=
  andb (Bool.eqb (s_rat a) (s_rat b)) (andb (andb (Nat.eqb (s_pu a) (s_pu b)) (Nat.eqb (s_pv a) (s_pv b)))
  (andb (andb (ql_close (s_Uu a) (s_Uu b)) (ql_close (s_Uv a) (s_Uv b))) (andb (andb (Nat.eqb (s_su a) (s_su b)) (Nat.eqb (s_sv a) (s_sv b)))
  (andb (qll_close (s_pts a) (s_pts b)) (andb (andb (qclose (s_du a) (s_du b)) (qclose (s_dv a) (s_dv b)))
  (andb (onat_eqb (s_rev a) (s_rev b)) (all2 trim_close (s_trims a) (s_trims b)))))))).
Definition vlm_close (a b : vlm (T:=Q)) : bool :=
  andb (Bool.eqb (v_rat a) (v_rat b)) (andb (andb (Nat.eqb (v_pu a) (v_pu b)) (andb (Nat.eqb (v_pv a) (v_pv b)) (Nat.eqb (v_pw a) (v_pw b))))
  (andb (andb (ql_close (v_Uu a) (v_Uu b)) (andb (ql_close (v_Uv a) (v_Uv b)) (ql_close (v_Uw a) (v_Uw b))))
  (andb (andb (Nat.eqb (v_su a) (v_su b)) (andb (Nat.eqb (v_sv a) (v_sv b)) (Nat.eqb (v_sw a) (v_sw b))))
  (andb (qll_close (v_pts a) (v_pts b)) (andb (qclose (v_du a) (v_du b)) (andb (qclose (v_dv a) (v_dv b)) (qclose (v_dw a) (v_dw b)))))))).
Definition shapes_close (a b : shapes (T:=Q)) : bool :=
  match a, b with
  | SC x, SC y => all2 crv_close x y
  | SS x, SS y => all2 srf_close x y
  | SV x, SV y => all2 vlm_close x y
  | _, _ => false
  end.

Definition D1 : Q := 1 # 100. Definition D2 : Q := 1 # 20. Definition D3 : Q := 1 # 10.
(* the model at the executable instance *)
Definition xjson (sh : shapes (T:=Q)) : jv Q := export_json Qops qid sh.
Definition ijson (dov : option Q) (f : jv Q) : res (shapes (T:=Q)) := import_json Qops qid D1 D2 D3 dov f.
Definition xsmesh (l : list (srf (T:=Q))) := export_smesh Qops qid l.
Definition ismesh (fs : list (list (list (tok Q)))) := import_smesh Qops qid D2 fs.
Definition xvmesh (l : list (vlm (T:=Q))) := export_vmesh Qops qid l.
Definition ivmesh (fs : list (list (list (tok Q)))) := import_vmesh Qops qid D3 fs.
Definition txt2_close (m : list (list Q) * nat * nat) (P : list (list Q)) (su sv : nat) : bool :=
  match m with (P', su', sv') => andb (qll_close P' P) (andb (Nat.eqb su' su) (Nat.eqb sv' sv)) end.
Definition csv_close (m : list nat * list (list Q)) (h : list nat) (rows : list (list Q)) : bool :=
  andb (eqLnat (fst m) h) (qll_close (snd m) rows).
