From Coq Require Import List QArith Reals Qreals Lra Bool.
From Param Require Import Param.
Import ListNotations.

Record ops (T : Type) := mkOps {
  o0 : T; o1 : T; oadd : T -> T -> T; osub : T -> T -> T; omul : T -> T -> T; odiv : T -> T -> T;
  oleb : T -> T -> bool; oltb : T -> T -> bool }.
Arguments o0 {T}. Arguments o1 {T}. Arguments oadd {T}. Arguments osub {T}. Arguments omul {T}.
Arguments odiv {T}. Arguments oleb {T}. Arguments oltb {T}.

Definition Qops : ops Q := mkOps Q 0%Q 1%Q (fun x y => Qred (x+y)) (fun x y => Qred (x-y)) (fun x y => Qred (x*y)) (fun x y => Qred (x/y)) Qle_bool (fun x y => negb (Qle_bool y x)).
Definition Rleb (x y : R) : bool := if Rle_dec x y then true else false.
Definition Rltb (x y : R) : bool := if Rlt_dec x y then true else false.
Definition Rops : ops R := mkOps R 0%R 1%R Rplus Rminus Rmult Rdiv Rleb Rltb.

Parametricity bool. Parametricity nat. Parametricity list. Parametricity option. Parametricity prod.
Lemma nat_R_eq n m : nat_R n m -> n = m.
Proof. induction 1; congruence. Qed.
Lemma nat_R_refl n : nat_R n n.
Proof. induction n; constructor; auto. Defined.
Definition nat2_R_proof (f : nat -> nat -> nat) : forall n1 n2 (nR : nat_R n1 n2) m1 m2 (mR: nat_R m1 m2), nat_R (f n1 m1) (f n2 m2).
Proof. intros. apply nat_R_eq in nR, mR. subst. apply nat_R_refl. Defined.
Realizer Nat.sub as Nat_sub_R := (nat2_R_proof Nat.sub).
Realizer Nat.modulo as Nat_modulo_R := (nat2_R_proof Nat.modulo).
Realizer Nat.max as Nat_max_R := (nat2_R_proof Nat.max).
Parametricity Recursive ops.
Definition QR (q : Q) (r : R) : Type := r = Q2R q.

Lemma bool_R_eq b1 b2 : b1 = b2 -> bool_R b1 b2.
Proof. intros ->; destruct b2; constructor. Qed.
Lemma bool_R_inv b1 b2 : bool_R b1 b2 -> b1 = b2.
Proof. destruct 1; reflexivity. Qed.

Lemma Q2R_div' x y : Q2R (x / y) = (Q2R x / Q2R y)%R.
Proof.
  destruct (Qeq_dec y 0) as [H|H].
  - unfold Qdiv. assert (Hy: Q2R y = 0%R) by (rewrite (Qeq_eqR _ _ H); unfold Q2R; simpl; lra).
    rewrite Hy. unfold Rdiv. rewrite Rinv_0, Rmult_0_r.
    assert (/ y == 0)%Q as Hi. { rewrite H. reflexivity. }
    rewrite Q2R_mult, (Qeq_eqR _ _ Hi). unfold Q2R at 2; simpl. lra.
  - apply Q2R_div; auto.
Qed.
Lemma Qred_R q : Q2R (Qred q) = Q2R q.
Proof. apply Qeq_eqR, Qred_correct. Qed.
Lemma ops_QR : ops_R Q R QR Qops Rops.
Proof.
  constructor; unfold QR.
  - unfold Q2R; simpl; lra.
  - unfold Q2R; simpl; lra.
  - intros a a' -> b b' ->. rewrite Qred_R, Q2R_plus; reflexivity.
  - intros a a' -> b b' ->. rewrite Qred_R, Q2R_minus; reflexivity.
  - intros a a' -> b b' ->. rewrite Qred_R, Q2R_mult; reflexivity.
  - intros a a' -> b b' ->. rewrite Qred_R, Q2R_div'; reflexivity.
  - intros a a' -> b b' ->. apply bool_R_eq. unfold Rleb. destruct (Rle_dec _ _) as [Hr|Hr].
    + apply Qle_bool_iff. apply Rle_Qle; exact Hr.
    + destruct (Qle_bool a b) eqn:E; auto. apply Qle_bool_iff in E. apply Qle_Rle in E. contradiction.
  - intros a a' -> b b' ->. apply bool_R_eq. unfold Rltb. destruct (Rlt_dec _ _) as [Hr|Hr].
    + destruct (Qle_bool b a) eqn:E; auto. apply Qle_bool_iff in E. apply Qle_Rle in E. lra.
    + destruct (Qle_bool b a) eqn:E; auto. exfalso. apply Hr. apply Qlt_Rlt. apply Qnot_le_lt. intro Hc. apply Qle_bool_iff in Hc. congruence.
Qed.

Lemma list_R_map l : list_R Q R QR l (map Q2R l).
Proof. induction l; simpl; constructor; auto. reflexivity. Qed.
Lemma list_R_map_inv l l' : list_R Q R QR l l' -> l' = map Q2R l.
Proof. induction 1 as [|? ? e]; simpl; [|rewrite e]; congruence. Qed.

(* ---- derived scalar operations (polymorphic, no laws) ---- *)
Section Derived.
Context {T : Type} (K : ops T).
Definition oneg (x : T) : T := osub K (o0 K) x.
Definition oeqb (x y : T) : bool := andb (oleb K x y) (oleb K y x).
Definition oabs (x : T) : T := if oleb K (o0 K) x then x else oneg x.
Definition omin (x y : T) : T := if oleb K x y then x else y.
Definition omax (x y : T) : T := if oleb K x y then y else x.
Fixpoint ofnat (n : nat) : T := match n with O => o0 K | S m => oadd K (ofnat m) (o1 K) end.
Definition o2 : T := oadd K (o1 K) (o1 K).
End Derived.

Realizer Nat.min as Nat_min_R := (nat2_R_proof Nat.min).
Realizer Nat.div as Nat_div_R := (nat2_R_proof Nat.div).
Realizer Nat.add as Nat_add_R := (nat2_R_proof Nat.add).
Realizer Nat.mul as Nat_mul_R := (nat2_R_proof Nat.mul).
Definition nat1_R_proof (f : nat -> nat) : forall n1 n2 (nR : nat_R n1 n2), nat_R (f n1) (f n2).
Proof. intros. apply nat_R_eq in nR. subst. apply nat_R_refl. Defined.
Realizer Nat.pred as Nat_pred_R := (nat1_R_proof Nat.pred).
Realizer Nat.div2 as Nat_div2_R := (nat1_R_proof Nat.div2).
Definition natb2_R_proof (f : nat -> nat -> bool) : forall n1 n2 (nR : nat_R n1 n2) m1 m2 (mR: nat_R m1 m2), bool_R (f n1 m1) (f n2 m2).
Proof. intros. apply nat_R_eq in nR, mR. subst. apply bool_R_eq. reflexivity. Defined.
Realizer Nat.leb as Nat_leb_R := (natb2_R_proof Nat.leb).
Realizer Nat.ltb as Nat_ltb_R := (natb2_R_proof Nat.ltb).
Realizer Nat.eqb as Nat_eqb_R := (natb2_R_proof Nat.eqb).
Realizer Nat.even as Nat_even_R := (fun n1 n2 nR => bool_R_eq _ _ (f_equal Nat.even (nat_R_eq _ _ nR))).
Realizer Nat.odd as Nat_odd_R := (fun n1 n2 nR => bool_R_eq _ _ (f_equal Nat.odd (nat_R_eq _ _ nR))).

Lemma Q2R_0 : Q2R 0 = 0%R. Proof. unfold Q2R; simpl; lra. Qed.
Lemma Q2R_1 : Q2R 1 = 1%R. Proof. unfold Q2R; simpl; lra. Qed.
Lemma list_R_nat_refl (l : list nat) : list_R nat nat nat_R l l.
Proof. induction l; constructor; auto using nat_R_refl. Qed.
Lemma bool_R_refl b : bool_R b b. Proof. destruct b; constructor. Qed.
Lemma list_list_R_map (l : list (list Q)) : list_R _ _ (list_R Q R QR) l (map (map Q2R) l).
Proof. induction l; simpl; constructor; auto using list_R_map. Qed.
Lemma list_list_R_map_inv l l' : list_R _ _ (list_R Q R QR) l l' -> l' = map (map Q2R) l.
Proof. induction 1 as [|? ? e]; simpl; [|apply list_R_map_inv in e; rewrite e]; congruence. Qed.

Ltac rsimp := cbn [oadd osub omul odiv o0 o1 oleb oltb Rops] in *.
